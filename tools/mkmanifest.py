#!/usr/bin/env python3
"""Regenerates /verif/MANIFEST.json from the table below (single source of truth for what is claimed)."""
import json, os, subprocess
V = '/verif'
props = [json.loads(l) for l in open(os.path.join(V, 'properties.jsonl'))]
hooks = subprocess.run(['git', '-C', '/repo', 'log', '--format=%H %s'], capture_output=True, text=True).stdout.splitlines()
hook_commits = [l.split()[0] for l in hooks if ' verif hooks:' in l]

NOTE = ("trusted base: Go toolchain 1.25 race detector/checkptr, the harness under /verif/harness (its monitors are validated "
        "silent on the unchanged tree at several seeds and firing on seeded breaks, see DESIGN.md), hooks behind -tags verif")
# id -> (technique, text, design section, extra note)
CLAIMS = {
 'C01': ('offline provenance checker over a recorded event log (unique values + one logical clock) from free-running stress with delay injection at hook points; forced primary-hash collision classes via Config.KeyToHash; race-detector build',
         'Exploration: every value returned by Get/IterValues in every episode is traced to the Set that supplied it (same key, call began before the Get returned); key types string, []byte, named string and the integer kinds; collision classes put different keys in the same shard slot.', '5/C01'),
 'C02': ('offline checker over a recorded event log: no Get/IterValues that starts after a value\'s OnExit entry returns it (unique values, one logical clock), stress with probers and delay injection at every detach path; porcupine v1.3.0 linearizability check (per-key register) of overwrite/read histories on resident keys',
         'Exploration: hundreds of thousands of hits per run are checked against the exit entries of their values on 1-8 hot keys under overwrite, overwrite-while-buffered, eviction, Del/re-insert, expiry and Clear races; register histories (<= 200 ops per key) are decided by porcupine, a timeout counts as inconclusive.', '5/C02'),
 'C03': ('quiescent-point assertion monitor (white-box snapshot under the cache\'s own locks vs RemainingCost/MaxCost), shadow accounting with fixed per-key costs, concurrent RemainingCost sampler; race-detector build',
         'Exploration: used == sum of accounted costs, RemainingCost() == MaxCost - used, accounted cost of every key == its fixed cost (+ internal overhead), RemainingCost() >= 0 at drained points and in a concurrent sampler in histories without cost-raising overwrites; cost sources explicit / Config.Cost / internal cost on and off, UpdateMaxCost raises; heavy-tailed fixed costs and a directed job (cache filled exactly, one newcomer of every cost 1..MaxCost+1) exercise admissions that need many victims.', '5/C03, 9.5'),
 'C04': ('offline per-value life-cycle automaton over a recorded event log (issued -> accepted|refused -> (evict|reject)? -> exit) from free-running stress with delay injection; race-detector build',
         'Exploration: every accepted value exits exactly once by the return of the next Clear/Close called after its Set returned, refused values reach no callback, OnEvict/OnReject at most once and followed by OnExit, no hit after exit; write-buffer sizes 1..32768, all capacities, TTLs, ShouldUpdate refusals, concurrent Clear; gated sequential episodes compare the exact callback multiset per operation; a directed job (hold Set/Del between the store update and OnExit, run Clear, release) reproduces known finding KF1 on every run, which is reported as KNOWN-FINDING.', '5/C04, 9.2'),
 'C05': ('reference-model monitor in lock-step with the single-stepped applier (gate hook): exhaustive enumeration of write prefixes x applier lags before Del, random gated sequences; callbacks compared per operation',
         'Exploration with a completely enumerated sub-space: every prefix over {Set, SetWithTTL, apply-one, Get} of length <= 4 on a key, then Del, every {apply-one, Get} suffix of length <= 2, then Wait and Gets, for two write-buffer sizes; plus random gated sequences with more Dels. Get must miss after Del;Wait until the next Set, and the deleted value must be passed to OnExit exactly once; plus free-running single-writer-per-key episodes (small buffers, delays) with the offline per-key rule over the merged log.', '5/C05'),
 'C06': ('reference-model monitor (map + explicit FIFO of pending writes) driven in lock-step with the applier, which is single-stepped through the vpApplierItem hook so that lag is an explicit integer; Wait early-return probe',
         'Exploration: thousands of random single-client sequences of Set/SetWithTTL/Del/Get/GetTTL/IterValues/Wait/Clear with "apply n items" steps in between; every Get/GetTTL/IterValues result and the white-box map contents must equal the model; Wait must not return before the items buffered ahead of its marker are applied; a no-sweep mode adds millisecond TTLs; the directed sweep schedules of C14 are also run under C06 (an entry re-written without TTL / with a later TTL must stay retrievable).', '5/C06, 9.5'),
 'C07': ('interval checker with sound wall-time brackets over scripted per-key histories (expiration lies in [t0+ttl, t1+ttl] with t0/t1 read around SetWithTTL); applier held by the gate hook for born-expired inserts; observers Get, GetTTL, IterValues; many caches in parallel',
         'Exploration: an observation that started after the latest possible expiration must not yield the item, one that finished before the earliest possible expiration must yield it (ample capacity, control key), anything in between is counted as inconclusive band; GetTTL <= ttl, no expiry for ttl=0, negative ttl returns false / stores nothing / reaches no callback. 1-second expiry buckets so that sweeps fall inside the scripts; late-application scripts where the insert waits in the write buffer behind a held item and is then re-written. Real time cannot be compressed: the number of bracketed observations is what the budget allows.', '5/C07, 9.5'),
 'C08': ('Go race detector (halt_on_error=0, reports de-duplicated by outermost ristretto frame pair) + per-call recover + per-call watchdog with canary; the workload shares no monitor state between goroutines so no happens-before edges are added',
         'Exploration: 2..64 goroutines issue all 12 listed call kinds on one open cache over BufferItems/NumCounters/MaxCost/metrics/callbacks/TTL/write-buffer-size configurations with delay injection at hook points; any race report with a ristretto frame, any recovered panic, any death of a cache goroutine and any call pending > 60 s while the canary is healthy is a violation. "Bounded time" is decided in that restated form. Close is only called after the clients joined.', '5/C08'),
 'C09': ('online decision monitor: the verifSampled hook reports (incoming estimate, sample, chosen minimum) under the policy mutex and the monitor recomputes every estimate, the minimum and the expected branch independently, then matches OnEvict order / OnReject / accounting; plus a black-box layer valid for any sampling scheme',
         'Exploration: thousands of decisions over resident populations 1..40, cost and frequency assignments (ties, zero, saturated), incoming classes {fits, fits exactly, exceeds by 1, needs k victims, larger than MaxCost, already resident}, each configuration repeated for different map iteration orders. A fifth of the decisions run while another goroutine records accesses of the newcomer (the estimate used must be the one valid under the mutex); duplicate pending Sets of a new key (second one must be rejected through OnReject). The sample size is recorded, never asserted.', '5/C09, 9.5'),
 'C10': ('differential reference-model monitor (map[uint64]uint64) over generated Set/DeleteBelow/IterateKV-rewrite/Reset histories, six page sizes, checkptr build',
         'Exploration: after every operation the touched keys, and periodically every key ever used plus the IterateKV multiset, are compared with a reference map; thresholds are tied to existing values so that leaf maxima are hit; histories cross node splits, page recycling and growth of the 1 MiB buffer; page sizes: the six boundary sizes plus sizes drawn from the whole range; in half of the short histories a fault-injection hook moves the backing buffer at every fresh page allocation (what Buffer.Grow does at capacity crossings), so a write through a stale node reference is lost immediately.', '5/C10, 9.5'),
 'C11': ('differential reference-model monitor ([]byte / [][]byte) over the four buffer kinds, sortedness + permutation oracle for the sorter, checkptr build',
         'Exploration: generated raw-mode and slice-mode sequences (sizes around capacity, growth, calloc->mmap switch, max size, slice counts around the 1024 chunking, five comparison functions); every operation is followed by a comparison of Bytes()/SliceOffsets/Slice/SliceIterate with the reference.', '5/C11'),
 'C12': ('address-interval disjointness + fill-pattern re-read + alignment/zero/copy assertions + sequential replay after Reset + per-call watchdog; Go race detector as second oracle (vwork.race), bulk sizes under checkptr (vwork.ptr)',
         'Exploration: epochs of 1..64 goroutines allocating sizes that straddle chunk boundaries on one allocator, with Reset and TrimTo;Reset between epochs; all handed-out intervals are sorted and checked for overlap and every pattern is re-read. TrimTo is only issued immediately before Reset (the AllocatorPool protocol): using an allocator after TrimTo without Reset hands out freed memory by construction and is outside the statement.', '5/C12'),
 'C13': ('quiescent-point assertion monitor: white-box snapshot invariants (policy key set == map key set, used == sum) and IterValues multiset vs snapshot; empty-cache clause after delete-all / clear / expire-and-sweep; race-detector build',
         'Exploration: at every barrier (clients parked, Wait, applier paused by its own stop/done handshake) the snapshot taken under the cache\'s own locks must satisfy I1/I2 and IterValues must yield exactly the unexpired resident values once and stop when asked; in two thirds of the episodes Clear is also issued concurrently with the writers.', '5/C13, 9.5'),
 'C14': ('directed schedule forcing through sweep hook points (the sweep is held after the bucket grab / before a key\'s check / after its conditional removal while a client re-writes or deletes the key), late-application schedules (insert waits in the write buffer until its bucket lies behind the frontier), stress with delays at the sweep points; oracles: per-value life-cycle attribution, bounded-progress restatement of "eventually", index-reachability invariant on white-box snapshots',
         'Exploration: position x racing call x position of the key in its bucket (100 directed cases per round), about half of the late-application attempts reach the sweep-first ordering (observed, not forced: the applier\'s select is random), stress episodes attribute every sweep eviction to a write whose earliest possible expiration had passed. "Eventually removed" is decided as: removed, reported once and cost released once a sweep that started after the application has completed with a frontier beyond the entry\'s bucket and the frontier at application; plus: every stored TTL entry is indexed in a bucket the sweep will still visit.', '5/C14'),
 'C15': ('post-condition assertions after Clear/Close in gated sequential histories (model predicts exact callbacks), goroutine-profile monitor, bounded-return probes for calls on a closed cache',
         'Exploration: histories that leave resident entries, buffered new items, buffered updates, buffered tombstones, pending Wait markers (blocked helper goroutines) and TTL entries at the moment of Clear/Close (the number of items applied before the applier stops is observed, not predicted); after Clear: empty snapshot, RemainingCost == MaxCost, metrics zero, waiters released, new writes served; after Close: Set false, Get miss, Del/Wait/Clear/Close return, no processItems goroutine left, every held or buffered value released exactly once; no-sweep episodes make expired-but-unswept entries resident at Clear/Close; free-running episodes (clients joined with the buffer undrained, blocked Wait helpers, delays at the three internal points of Clear) assert the same post-conditions and run the life-cycle automaton; a directed job blocks 1..8 Wait callers on a completely full write buffer (verified in the goroutine profile) before Clear/Close.', '5/C15, 9.5'),
 'C16': ('C10 differential monitor carried across clean close + reopen of a persistent tree, Stats equality, recycled-page reuse assertion, checkptr build',
         'Exploration: Set/DeleteBelow histories on a file-backed tree, closed and reopened at random points, right after DeleteBelow recycled pages, at page-count boundaries of the mapped file, right after creation and at the end; contents, Stats (all but Allocated) and subsequent behaviour are compared with the reference.', '5/C16'),
 'C17': ('quiescent-point conservation checker: Metrics counters vs harness-side per-goroutine counters and the white-box snapshot; race-detector build',
         'Exploration: the five laws of the statement are evaluated at every barrier of stress episodes with metrics on (evictions, cost-raising and -lowering overwrites, expiries, rejections, buffer-full drops); Clear only at barriers so that "since the last Clear" is well defined; GetsKept+GetsDropped is compared with Gets since creation (Get batches parked in ring stripes survive Clear).', '5/C17'),
 'C18': ('reference-model monitor (exact per-counter model of the count-min rows, white-box via verif accessors) + exhaustive byte-level enumeration, checkptr build',
         'Exploration: every 4-bit counter of the real sketch is compared with an exact model after every operation over generated sequences and table sizes; the byte-level sub-space (256 values x nibble) is enumerated completely. Holds on the sequences observed; right level because the property is a pure-function contract over an unbounded input space.', '5/C18'),
 'C19': ('reference-set monitor with structured probe hashes and JSON round-trip differential, checkptr build',
         'Exploration: generated Add/AddIfNotHas/Has/Clear/JSON sequences over parameter lists, each answer compared with a reference set; no false negative, AddIfNotHas contract, Clear, serialization equality on every probed hash; restored filters are cleared and histories continue on them.', '5/C19'),
 'C20': ('differential monitor vs simd.Naive with adversarial tails + guard-page sanitizer (PROT_NONE page after the slice, SetPanicOnFault)',
         'Exploration with a completely enumerated sub-space: every even length 0..518 x first-match position x k class x tail pattern, x base alignment of the slice within a cache line, plus random contents; any read past len(xs) faults on the guard page and is recorded.', '5/C20, 9.5'),
}
checks = []
for p in props:
    i = p['id']
    if i not in CLAIMS:
        continue
    tech, text, ref = CLAIMS[i]
    checks.append({
        'property_id': i,
        'quick_cmd': 'python3 check.py %s quick' % i,
        'thorough_cmd': 'python3 check.py %s thorough' % i,
        'evidence_file': '/verif/evidence/%s.json' % i,
        'replay_cmd_template': 'python3 check.py replay {path}',
        'engine': 'vwork',
        'level_claimed': {'category': 'exploration', 'text': text, 'design_ref': 'DESIGN.md section ' + ref},
        'level_note': NOTE,
        'technique': tech,
    })
na = [{'property_id': p['id'], 'reason': 'monitor still under construction in this build phase (planned in DESIGN.md section 5); not claimed until validated silent on the unchanged tree'}
      for p in props if p['id'] not in CLAIMS]
m = {
 'version': 1,
 'setup_cmd': 'python3 check.py build',
 'hooks': {'guard': 'verif', 'enable': 'go build -tags verif (check.py builds /verif/harness, which replaces the ristretto module by /repo, with -tags verif)',
           'baseline_off_cmd': 'cd /repo && GOFLAGS=-mod=mod GOPROXY=off go test -vet=off -count=1 -timeout 25m ./...',
           'source_commits': hook_commits, 'add_only': True},
 'engines': [{'name': 'vwork', 'path': '/verif/harness/cmd/vwork', 'serves_properties': sorted(CLAIMS),
              'kind_free_text': 'Go workload binary (one sub-command per property) built from /repo working tree with -tags verif, as vwork.race (-race) and vwork.ptr (checkptr); run as child processes by /verif/check.py which classifies outcomes and writes evidence'}],
 'checks': checks,
 'notes': 'Runtime monitoring only. Known findings / fixed defects: /verif/known_findings.json. VERIF_SEED selects the PRNG seed (default 1).',
}
if na:
    m['not_applicable'] = na
json.dump(m, open(os.path.join(V, 'MANIFEST.json'), 'w'), indent=1)
print('claimed:', sorted(CLAIMS), 'hooks:', [h[:7] for h in hook_commits])
