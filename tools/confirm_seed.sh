#!/bin/bash
# tools/confirm_seed.sh <worktree> <seed-id> <property> <demo-run-regex> [pkg]
# Confirms an independently seeded change in its scratch worktree (outside /repo and /verif):
#   demo passes without the change, fails with it, and the unedited suite passes with it.
# Then stores patch + demo + meta skeleton under /verif/seeded/<seed-id>/.
set -u
WT=$1; ID=$2; PROP=$3; RX=$4; PKG=${5:-.}
export GOFLAGS=-mod=mod GOPROXY=off
OUT=/verif/seeded/$ID; mkdir -p $OUT
LOG=$OUT/confirm.log; : > $LOG
cd $WT || exit 2
cp seeded/patch.diff $OUT/patch.diff
for f in seeded/*; do case "$f" in *patch.diff) ;; *) cp "$f" $OUT/ ;; esac; done
# library files touched by the patch
FILES=$(grep '^+++ b/' seeded/patch.diff | sed 's#^+++ b/##')
echo "files: $FILES" >> $LOG
git checkout -- .
echo "== demo WITHOUT the change (expect pass)" >> $LOG
go test -vet=off -count=1 -run "$RX" $PKG >> $LOG 2>&1; A=$?
git apply seeded/patch.diff || { echo "patch does not apply" >> $LOG; exit 2; }
echo "== demo WITH the change (expect fail), 3 runs" >> $LOG
F=0; for i in 1 2 3; do go test -vet=off -count=1 -run "$RX" $PKG >> $LOG 2>&1 || F=$((F+1)); done
echo "== unedited suite WITH the change (demo files moved aside; expect pass)" >> $LOG
mkdir -p /tmp/wt/.aside_$ID; DEMOS=$(git status --porcelain | grep '^??' | awk '{print $2}' | grep '_test.go$'); for d in $DEMOS; do mkdir -p /tmp/wt/.aside_$ID/$(dirname $d); mv $d /tmp/wt/.aside_$ID/$d; done
go build ./... >> $LOG 2>&1; B=$?
go test -vet=off -count=1 -timeout 25m $(go list ./... | grep -v '/seeded') >> $LOG 2>&1; S=$?
for d in $DEMOS; do mv /tmp/wt/.aside_$ID/$d $d; done; rm -rf /tmp/wt/.aside_$ID
echo "RESULT demo_without=$A (0=pass) demo_with_failures=$F/3 build=$B suite_with=$S (0=pass)" | tee -a $LOG
