#!/usr/bin/env python3
"""Sanity mutation helper: tools/mut.py <prop>[,<prop>..] <file-in-repo> <old> <new> [tier]
Applies a textual replacement (first occurrence) to /repo/<file>, checks that the repo still builds,
runs the property check(s), restores the file. Prints CAUGHT/MISSED per property."""
import subprocess, sys, os
props, f, old, new = sys.argv[1].split(','), sys.argv[2], sys.argv[3], sys.argv[4]
tier = sys.argv[5] if len(sys.argv) > 5 else 'quick'
p = os.path.join('/repo', f)
src = open(p).read()
if old not in src:
    print('pattern not found'); sys.exit(2)
env = dict(os.environ, GOFLAGS='-mod=mod', GOPROXY='off', VERIF_SCRATCH_EVIDENCE='1')
try:
    open(p, 'w').write(src.replace(old, new, 1))
    b = subprocess.run(['go', 'build', './...'], cwd='/repo', env=env, capture_output=True, text=True)
    if b.returncode != 0:
        print('mutant does not build:', b.stderr[:500]); sys.exit(2)
    for pr in props:
        r = subprocess.run(['python3', '/verif/check.py', pr, tier], capture_output=True, text=True, env=env)
        v = [l for l in r.stdout.splitlines() if l.startswith('VIOLATION') or l.startswith('  signature')]
        print(pr, 'CAUGHT' if r.returncode == 1 else 'MISSED rc=%d' % r.returncode, '|', ' '.join(v[:4])[:300])
        if r.returncode not in (0, 1):
            print(r.stdout[-1500:])
finally:
    open(p, 'w').write(src)
    subprocess.run(['git', '-C', '/repo', 'status', '--short'])
