#!/bin/bash
# tools/eval_seed.sh <seed-id> <prop> [<prop>...]  : applies the seeded patch to /repo, runs the quick checks, reverts.
ID=$1; shift
P=/verif/seeded/$ID/patch.diff
git -C /repo status --short | grep -q . && { echo "/repo not clean"; exit 2; }
git -C /repo apply $P || exit 2
export VERIF_SCRATCH_EVIDENCE=1
for pr in "$@"; do
  out=$(python3 /verif/check.py $pr quick 2>&1); rc=$?
  sig=$(echo "$out" | grep '^  signature' | head -3 | tr '\n' ' ')
  echo "$ID $pr rc=$rc $( [ $rc = 1 ] && echo CAUGHT || echo MISSED ) $sig" | tee -a /verif/seeded/$ID/results.txt
done
git -C /repo checkout -- . ; git -C /repo status --short
