#!/bin/bash
# tools/take_seed.sh <worktree-name under /tmp/wt> <seed-id> <property> <demo-regex> <pkg> [props to evaluate...]
WT=/tmp/wt/$1; SID=$2; PROP=$3; RX=$4; PKG=$5; shift 5
mkdir -p /verif/seeded/$SID && cp $WT/seeded/patch.diff /verif/seeded/$SID/
( /verif/tools/confirm_seed.sh $WT $SID $PROP "$RX" $PKG > /tmp/wt/confirm_$SID.out 2>&1 & )
/verif/tools/eval_seed.sh $SID ${@:-$PROP} 2>&1 | cut -c1-400
