package lab

import "math/rand/v2"

// RNG is a deterministic PRNG (PCG) derived from (seed, stream).
type RNG struct{ *rand.Rand }

func NewRNG(seed int64, stream uint64) *RNG {
	return &RNG{rand.New(rand.NewPCG(uint64(seed)*0x9E3779B97F4A7C15+0x1234567, stream*0xBF58476D1CE4E5B9+0x94D049BB133111EB))}
}

func (r *RNG) Intn(n int) int {
	if n <= 0 {
		return 0
	}
	return r.IntN(n)
}

// Range returns a value in [lo, hi].
func (r *RNG) Range(lo, hi int) int {
	if hi <= lo {
		return lo
	}
	return lo + r.IntN(hi-lo+1)
}

func (r *RNG) Chance(p float64) bool { return r.Float64() < p }

func Pick[T any](r *RNG, xs []T) T { return xs[r.IntN(len(xs))] }
