package lab

import (
	"fmt"
	"os"
	"runtime"
	"sync"
	"sync/atomic"
	"time"
)

// Watchdog flags library calls that do not return. Each worker owns a slot;
// Enter/Leave bracket a call. A scanner goroutine (the canary) measures its
// own scheduling delay; a hang verdict is issued only while the canary is
// healthy, otherwise the run is inconclusive.
type Watchdog struct {
	limit   time.Duration
	slots   []wdSlot
	onHang  func(desc string, healthy bool, dump string)
	stop    chan struct{}
	once    sync.Once
	maxLate atomic.Int64
}

type wdSlot struct {
	start atomic.Int64 // unix nanos, 0 = idle
	desc  atomic.Pointer[string]
	_     [40]byte
}

func NewWatchdog(nslots int, limit time.Duration, onHang func(desc string, healthy bool, dump string)) *Watchdog {
	w := &Watchdog{limit: limit, slots: make([]wdSlot, nslots), onHang: onHang, stop: make(chan struct{})}
	go w.scan()
	return w
}

func (w *Watchdog) Enter(slot int, desc string) {
	s := &w.slots[slot]
	s.desc.Store(&desc)
	s.start.Store(time.Now().UnixNano())
}

func (w *Watchdog) Leave(slot int) { w.slots[slot].start.Store(0) }

func (w *Watchdog) Stop() { w.once.Do(func() { close(w.stop) }) }

// MaxLateMs is the worst scheduling delay the canary saw.
func (w *Watchdog) MaxLateMs() int64 { return w.maxLate.Load() }

func (w *Watchdog) scan() {
	const tick = 500 * time.Millisecond
	last := time.Now()
	lateSince := time.Time{}
	for {
		select {
		case <-w.stop:
			return
		case <-time.After(tick):
		}
		now := time.Now()
		late := now.Sub(last) - tick
		last = now
		if ms := late.Milliseconds(); ms > w.maxLate.Load() {
			w.maxLate.Store(ms)
		}
		if late > 2*time.Second {
			lateSince = now
		}
		for i := range w.slots {
			st := w.slots[i].start.Load()
			if st == 0 {
				continue
			}
			if age := now.Sub(time.Unix(0, st)); age > w.limit {
				healthy := lateSince.IsZero() || time.Unix(0, st).After(lateSince)
				d := ""
				if p := w.slots[i].desc.Load(); p != nil {
					d = *p
				}
				buf := make([]byte, 1<<20)
				n := runtime.Stack(buf, true)
				w.onHang(fmt.Sprintf("call pending for %v: %s", age.Round(time.Second), d), healthy, string(buf[:n]))
				return
			}
		}
	}
}

// HangExit is the usual onHang: record the verdict, write the result and exit.
func HangExit(r *Result, sigPrefix string, out string) func(string, bool, string) {
	return func(desc string, healthy bool, dump string) {
		if healthy {
			if len(dump) > 20000 {
				dump = dump[:20000]
			}
			r.Violate(sigPrefix+"/hang", desc, map[string]any{"goroutines": dump})
		} else {
			r.Inconc(1)
			r.Note("watchdog fired while the canary was late (machine stalled): %s", desc)
		}
		if out != "" {
			r.Write(out)
		}
		if healthy {
			os.Exit(3)
		}
		os.Exit(0)
	}
}

// HangInconclusive is the onHang of workloads whose property is not about deadlocks: the hang is recorded as a
// note (C08 owns it), the result is written and the child exits with status 5 so that the driver reports the run
// as not conclusive instead of waiting for its own watchdog.
func HangInconclusive(r *Result, out string) func(string, bool, string) {
	return func(desc string, healthy bool, dump string) {
		r.Inconc(1)
		r.Note("a library call did not return (canary healthy: %v): %s", healthy, desc)
		if len(dump) > 30000 {
			dump = dump[:30000]
		}
		r.Note("goroutines: %s", dump)
		if out != "" {
			r.Write(out)
		}
		os.Exit(5)
	}
}
