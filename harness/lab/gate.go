package lab

import (
	"fmt"
	"sync"
	"sync/atomic"
	"time"

	ristretto "github.com/dgraph-io/ristretto/v2"
)

// Gate single-steps the applier goroutine through the vpApplierItem hook: the
// applier holds the item it just dequeued until the harness grants a token.
type Gate struct {
	mu      sync.Mutex
	cond    *sync.Cond
	enabled bool
	held    bool
	heldKey uint64
	tokens  int
	applied int // items fully applied (ItemDone)
	taken   int // items dequeued (ApplierItem)
	stopped int // Clear observed the applier stopped (ClearStopped)
	sweeps  int // SweepDone
	other   atomic.Pointer[func(point int, arg uint64)]
}

// SetOther installs (or with nil removes) a handler that also sees every hook point; safe while hooks fire.
func (g *Gate) SetOther(f func(point int, arg uint64)) {
	if f == nil {
		g.other.Store(nil)
		return
	}
	g.other.Store(&f)
}

func NewGate(l *Lab) *Gate {
	g := &Gate{enabled: true}
	g.cond = sync.NewCond(&g.mu)
	l.SetHook(g.hook)
	return g
}

func (g *Gate) hook(point int, arg uint64) {
	switch point {
	case ristretto.VPApplierItem:
		g.mu.Lock()
		g.taken++
		g.held = true
		g.heldKey = arg
		g.cond.Broadcast()
		for g.enabled && g.tokens == 0 {
			g.cond.Wait()
		}
		if g.enabled {
			g.tokens--
		}
		g.held = false
		g.mu.Unlock()
	case ristretto.VPApplierItemDone:
		g.mu.Lock()
		g.applied++
		g.cond.Broadcast()
		g.mu.Unlock()
	case ristretto.VPClearStopped:
		g.mu.Lock()
		g.stopped++
		g.cond.Broadcast()
		g.mu.Unlock()
	case ristretto.VPSweepDone:
		g.mu.Lock()
		g.sweeps++
		g.cond.Broadcast()
		g.mu.Unlock()
	}
	if f := g.other.Load(); f != nil {
		(*f)(point, arg)
	}
}

// waitFor waits until pred holds (under the gate mutex); false on timeout.
func (g *Gate) waitFor(pred func() bool, d time.Duration) bool {
	deadline := time.Now().Add(d)
	stop := make(chan struct{})
	go func() {
		select {
		case <-time.After(d):
			g.mu.Lock()
			g.cond.Broadcast()
			g.mu.Unlock()
		case <-stop:
		}
	}()
	defer close(stop)
	g.mu.Lock()
	defer g.mu.Unlock()
	for !pred() {
		if time.Now().After(deadline) {
			return false
		}
		g.cond.Wait()
	}
	return true
}

const gateTimeout = 10 * time.Second

// AwaitHeld waits until the applier holds a dequeued item.
func (g *Gate) AwaitHeld() error {
	if !g.waitFor(func() bool { return g.held }, gateTimeout) {
		return fmt.Errorf("gate: applier did not pick up an item within %v", gateTimeout)
	}
	return nil
}

// Held reports whether the applier currently holds an item.
func (g *Gate) Held() bool {
	g.mu.Lock()
	defer g.mu.Unlock()
	return g.held
}

// Taken is the number of items the applier has dequeued so far.
func (g *Gate) Taken() int {
	g.mu.Lock()
	defer g.mu.Unlock()
	return g.taken
}

func (g *Gate) Applied() int {
	g.mu.Lock()
	defer g.mu.Unlock()
	return g.applied
}

func (g *Gate) Stopped() int {
	g.mu.Lock()
	defer g.mu.Unlock()
	return g.stopped
}

// Step lets the applier apply the item it holds and waits until it is done.
func (g *Gate) Step() error {
	g.mu.Lock()
	if !g.held {
		g.mu.Unlock()
		return fmt.Errorf("gate: Step without a held item")
	}
	a := g.applied
	g.tokens++
	g.cond.Broadcast()
	g.mu.Unlock()
	if !g.waitFor(func() bool { return g.applied > a }, gateTimeout) {
		return fmt.Errorf("gate: item not applied within %v", gateTimeout)
	}
	return nil
}

// StepUntil grants one token and waits until either the item is done and the
// applier holds the next one, or cond (evaluated under the gate lock) holds.
func (g *Gate) AwaitHeldOr(cond func(stopped, applied int) bool) (held bool, err error) {
	ok := g.waitFor(func() bool { return g.held || cond(g.stopped, g.applied) }, gateTimeout)
	if !ok {
		return false, fmt.Errorf("gate: neither held nor condition within %v", gateTimeout)
	}
	g.mu.Lock()
	defer g.mu.Unlock()
	return g.held, nil
}

// Open disables the gate: the applier runs freely from now on.
func (g *Gate) Open() {
	g.mu.Lock()
	g.enabled = false
	g.cond.Broadcast()
	g.mu.Unlock()
}

// Close re-enables gating (only when the buffer is known to be empty).
func (g *Gate) Close() {
	g.mu.Lock()
	g.enabled = true
	g.mu.Unlock()
}
