package lab

import (
	"bytes"
	"fmt"
	"sync"
	"sync/atomic"
	"time"

	ristretto "github.com/dgraph-io/ristretto/v2"
	"github.com/dgraph-io/ristretto/v2/z"
)

// CacheCfg describes one cache under test.
type CacheCfg struct {
	NumCounters        int64       `json:"num_counters"`
	MaxCost            int64       `json:"max_cost"`
	BufferItems        int64       `json:"buffer_items"`
	Metrics            bool        `json:"metrics"`
	IgnoreInternalCost bool        `json:"ignore_internal_cost"`
	CostFn             string      `json:"cost_fn,omitempty"`       // "", "keycost": Config.Cost derives the cost from the value's key
	ShouldUpdate       string      `json:"should_update,omitempty"` // "", "parity": refuse when the new value's sequence number is odd
	KeyKind            string      `json:"key_kind"`
	Collide            int         `json:"collide,omitempty"` // >0: KeyToHash maps key index i to primary hash i mod Collide (+base), conflict i+1
	SetBuf             int         `json:"set_buf,omitempty"`
	TTLTick            int64       `json:"ttl_tick_s,omitempty"`
	NoCallbacks        bool        `json:"no_callbacks,omitempty"`
	NKeys              int         `json:"nkeys"`
	HashHook           func(i int) `json:"-"`                        // called inside Config.KeyToHash with the key index (a user function that may be slow)
	KeyZero            bool        `json:"key_zero,omitempty"`       // integer key kinds start at 0: key index 0 is the key 0, whose primary hash is 0
	AllowHashDup       bool        `json:"allow_hash_dup,omitempty"` // do not insist on distinct primary hashes (C01 provenance only needs values)
}

// Event kinds.
const (
	EvGet = iota + 1
	EvSet
	EvDel
	EvGetTTL
	EvIter // one per value yielded; T1 = T2 = clock at the yield, Aux = call clock of the IterValues
	EvIterDone
	EvWait
	EvClear
	EvClose
	EvOnEvict
	EvOnReject
	EvOnExit
	EvMaxCost
	EvHook
)

var EvNames = map[int]string{EvGet: "Get", EvSet: "Set", EvDel: "Del", EvGetTTL: "GetTTL", EvIter: "IterYield", EvIterDone: "IterValues",
	EvWait: "Wait", EvClear: "Clear", EvClose: "Close", EvOnEvict: "OnEvict", EvOnReject: "OnReject", EvOnExit: "OnExit", EvMaxCost: "UpdateMaxCost", EvHook: "Hook"}

// Ev is one record of the event log. T1/T2 are logical clock readings (call
// and return for client calls, entry for callbacks); W1/W2 are monotonic
// nanoseconds since the lab's creation (used only for TTL brackets).
type Ev struct {
	Kind   uint8
	Ok     bool
	G      int16
	Key    int32
	Val    uint64
	T1, T2 int64
	Aux    int64 // Set: cost; Get/GetTTL: returned ttl; hooks: arg
	TTL    int64 // Set: ttl in ns
	W1, W2 int64
}

func (e Ev) String() string {
	return fmt.Sprintf("%s(g%d key=%d val=%#x ok=%v aux=%d ttl=%d) @[%d,%d]", EvNames[int(e.Kind)], e.G, e.Key, e.Val, e.Ok, e.Aux, e.TTL, e.T1, e.T2)
}

// Value encoding: unique, never zero, carries the key index it was written under.
func MakeVal(key int, writer int, seq uint32) uint64 {
	return uint64(key+1)<<44 | uint64(writer&0xfff)<<32 | uint64(seq)
}
func ValKey(v uint64) int    { return int(v>>44) - 1 }
func ValWriter(v uint64) int { return int(v>>32) & 0xfff }
func ValSeq(v uint64) uint32 { return uint32(v) }

// Cachey is the key-index view of a Cache[K,uint64] for any key type.
type Cachey interface {
	Get(k int) (uint64, bool)
	SetWithTTL(k int, v uint64, cost int64, ttl time.Duration) bool
	Del(k int)
	GetTTL(k int) (time.Duration, bool)
	IterValues(func(uint64) bool)
	Wait()
	Clear()
	Close()
	MaxCost() int64
	UpdateMaxCost(int64)
	RemainingCost() int64
	Metrics() *ristretto.Metrics
	Owner() any
	Pause()
	Resume()
	Snapshot() *ristretto.VerifSnap[uint64]
	Hash(k int) (uint64, uint64)
	Estimate(hash uint64) int64
	Increment(hash uint64, n int)
}

type adapter[K ristretto.Key] struct {
	c  *ristretto.Cache[K, uint64]
	mk func(int) K
}

func (a *adapter[K]) Get(k int) (uint64, bool) { return a.c.Get(a.mk(k)) }
func (a *adapter[K]) SetWithTTL(k int, v uint64, cost int64, ttl time.Duration) bool {
	if ttl == 0 {
		return a.c.Set(a.mk(k), v, cost)
	}
	return a.c.SetWithTTL(a.mk(k), v, cost, ttl)
}
func (a *adapter[K]) Del(k int)                              { a.c.Del(a.mk(k)) }
func (a *adapter[K]) GetTTL(k int) (time.Duration, bool)     { return a.c.GetTTL(a.mk(k)) }
func (a *adapter[K]) IterValues(f func(uint64) bool)         { a.c.IterValues(f) }
func (a *adapter[K]) Wait()                                  { a.c.Wait() }
func (a *adapter[K]) Clear()                                 { a.c.Clear() }
func (a *adapter[K]) Close()                                 { a.c.Close() }
func (a *adapter[K]) MaxCost() int64                         { return a.c.MaxCost() }
func (a *adapter[K]) UpdateMaxCost(n int64)                  { a.c.UpdateMaxCost(n) }
func (a *adapter[K]) RemainingCost() int64                   { return a.c.RemainingCost() }
func (a *adapter[K]) Metrics() *ristretto.Metrics            { return a.c.Metrics }
func (a *adapter[K]) Owner() any                             { return a.c.VerifOwner() }
func (a *adapter[K]) Pause()                                 { a.c.VerifPause() }
func (a *adapter[K]) Resume()                                { a.c.VerifResume() }
func (a *adapter[K]) Snapshot() *ristretto.VerifSnap[uint64] { return a.c.VerifSnapshot() }
func (a *adapter[K]) Hash(k int) (uint64, uint64)            { return a.c.VerifHash(a.mk(k)) }
func (a *adapter[K]) Estimate(h uint64) int64                { return a.c.VerifEstimate(h) }
func (a *adapter[K]) Increment(h uint64, n int)              { a.c.VerifIncrement(h, n) }

type namedString string

// Lab is one cache plus its monitors.
type Lab struct {
	Cfg   CacheCfg
	C     Cachey
	Clk   atomic.Int64
	Start time.Time

	cbMu          sync.Mutex
	cb            []Ev
	ZeroCallbacks atomic.Int64

	// CbDelay, if set, is called at the start of every user callback with the callback kind.
	CbDelay func(kind int)
	// Hook, if set, receives every hook point of this cache.
	hook atomic.Pointer[func(point int, arg uint64)]

	HashIdx map[uint64]int // primary key hash -> key index (collision-free configurations only)
	Hashes  [][2]uint64

	clients []*Client
	closed  bool
}

var (
	newCacheMu sync.Mutex // serialises VerifSetBufSize + NewCache
	owners     sync.Map   // owner -> *Lab
	hookOnce   sync.Once
)

func dispatchHook(owner any, point int, arg uint64) {
	if l, ok := owners.Load(owner); ok {
		if h := l.(*Lab).hook.Load(); h != nil {
			(*h)(point, arg)
		}
	}
}

// SetHook installs the per-cache hook handler (nil removes it).
func (l *Lab) SetHook(h func(point int, arg uint64)) {
	if h == nil {
		l.hook.Store(nil)
		return
	}
	l.hook.Store(&h)
}

// KeyCost is the cost function used with CostFn "keycost": a function of the key only.
func KeyCost(key int) int64 { return int64(1 + (key*7)%13) }

// KeyCostSkew is a heavy-tailed fixed per-key cost: most keys cost 1, every seventh key costs 9..48.
func KeyCostSkew(key int) int64 {
	if key%7 == 3 {
		return int64(9 + (key*13)%40)
	}
	return 1
}

func buildCache[K ristretto.Key](l *Lab, mk func(int) K, idx func(K) int) (Cachey, error) {
	cfg := l.Cfg
	conf := &ristretto.Config[K, uint64]{
		NumCounters: cfg.NumCounters, MaxCost: cfg.MaxCost, BufferItems: cfg.BufferItems,
		Metrics: cfg.Metrics, IgnoreInternalCost: cfg.IgnoreInternalCost, TtlTickerDurationInSec: cfg.TTLTick,
	}
	if !cfg.NoCallbacks {
		conf.OnEvict = func(it *ristretto.Item[uint64]) { l.callback(EvOnEvict, it.Key, it.Value, it.Cost) }
		conf.OnReject = func(it *ristretto.Item[uint64]) { l.callback(EvOnReject, it.Key, it.Value, it.Cost) }
		conf.OnExit = func(v uint64) { l.callback(EvOnExit, 0, v, 0) }
	}
	if cfg.CostFn == "keycost" {
		conf.Cost = func(v uint64) int64 { return KeyCost(ValKey(v)) }
	}
	if cfg.ShouldUpdate == "parity" {
		conf.ShouldUpdate = func(cur, prev uint64) bool { return ValSeq(cur)%2 == 0 }
	}
	if cfg.Collide > 0 || cfg.HashHook != nil {
		c := cfg.Collide
		if c == 0 {
			c = 1 << 30 // no collisions
		}
		hh := cfg.HashHook
		conf.KeyToHash = func(k K) (uint64, uint64) {
			i := idx(k)
			if hh != nil {
				hh(i)
			}
			return 0x5000 + uint64(i%c), uint64(i + 1)
		}
	}
	newCacheMu.Lock()
	old := -1
	if cfg.SetBuf > 0 {
		old = ristretto.VerifSetBufSize(cfg.SetBuf)
	}
	c, err := ristretto.NewCache(conf)
	if old >= 0 {
		ristretto.VerifSetBufSize(old)
	}
	newCacheMu.Unlock()
	if err != nil {
		return nil, err
	}
	return &adapter[K]{c, mk}, nil
}

// NewLab creates the cache described by cfg with callbacks wired to the event log.
func NewLab(cfg CacheCfg) (*Lab, error) {
	hookOnce.Do(func() { ristretto.VerifSetHook(dispatchHook) })
	if cfg.BufferItems == 0 {
		cfg.BufferItems = 64
	}
	if cfg.KeyKind == "" {
		cfg.KeyKind = "uint64"
	}
	l := &Lab{Cfg: cfg, Start: time.Now(), HashIdx: map[uint64]int{}}
	var err error
	base := 1000
	if cfg.KeyZero {
		base = 0
	}
	switch cfg.KeyKind {
	case "uint64":
		l.C, err = buildCache(l, func(i int) uint64 { return uint64(base + i) }, func(k uint64) int { return int(k) - base })
	case "int":
		l.C, err = buildCache(l, func(i int) int { return base + i }, func(k int) int { return k - base })
	case "int64":
		l.C, err = buildCache(l, func(i int) int64 { return int64(-base - i) }, func(k int64) int { return int(-k) - base })
	case "uint32":
		l.C, err = buildCache(l, func(i int) uint32 { return uint32(base + i) }, func(k uint32) int { return int(k) - base })
	case "int32":
		l.C, err = buildCache(l, func(i int) int32 { return int32(base + i) }, func(k int32) int { return int(k) - base })
	case "uint":
		l.C, err = buildCache(l, func(i int) uint { return uint(base + i) }, func(k uint) int { return int(k) - base })
	case "byte":
		l.C, err = buildCache(l, func(i int) byte { return byte(i) }, func(k byte) int { return int(k) })
	case "string":
		l.C, err = buildCache(l, func(i int) string { return fmt.Sprintf("key-%d", i) }, func(k string) int { var i int; fmt.Sscanf(k, "key-%d", &i); return i })
	case "named":
		l.C, err = buildCache(l, func(i int) namedString { return namedString(fmt.Sprintf("key-%d", i)) }, func(k namedString) int { var i int; fmt.Sscanf(string(k), "key-%d", &i); return i })
	case "bytes":
		l.C, err = buildCache(l, func(i int) []byte { return []byte(fmt.Sprintf("key-%d", i)) }, func(k []byte) int { var i int; fmt.Sscanf(string(k), "key-%d", &i); return i })
	case "bytes-short":
		// short keys (1..8 bytes) that differ only in their number of trailing zero bytes, plus the empty key
		l.C, err = buildCache(l, shortKey, func(k []byte) int { return shortKeyIdx(k) })
	case "string-short":
		l.C, err = buildCache(l, func(i int) string { return string(shortKey(i)) }, func(k string) int { return shortKeyIdx([]byte(k)) })
	case "bytes-long":
		// 1100-byte keys that agree everywhere except for four bytes in their middle part
		l.C, err = buildCache(l, longKey, func(k []byte) int { return longKeyIdx(k) })
	case "string-long":
		l.C, err = buildCache(l, func(i int) string { return string(longKey(i)) }, func(k string) int { return longKeyIdx([]byte(k)) })
	default:
		return nil, fmt.Errorf("unknown key kind %q", cfg.KeyKind)
	}
	if err != nil {
		return nil, err
	}
	owners.Store(l.C.Owner(), l)
	l.Hashes = make([][2]uint64, cfg.NKeys)
	for i := 0; i < cfg.NKeys; i++ {
		h, c := l.C.Hash(i)
		l.Hashes[i] = [2]uint64{h, c}
		if cfg.Collide == 0 && !cfg.AllowHashDup {
			if j, dup := l.HashIdx[h]; dup {
				return nil, fmt.Errorf("harness: keys %d and %d collide on the primary hash without Collide", i, j)
			}
		}
		l.HashIdx[h] = i
	}
	return l, nil
}

// Forget unregisters the lab from the hook dispatcher (after Close).
func (l *Lab) Forget() {
	owners.Delete(l.C.Owner())
}

func (l *Lab) now() int64 { return int64(time.Since(l.Start)) }

func (l *Lab) callback(kind int, keyHash uint64, v uint64, cost int64) {
	t := l.Clk.Add(1)
	if v == 0 {
		// zero-valued callbacks are legitimate noise (absent key deleted, tombstones): counted, otherwise ignored
		l.ZeroCallbacks.Add(1)
		if d := l.CbDelay; d != nil {
			d(kind)
		}
		return
	}
	e := Ev{Kind: uint8(kind), G: -1, Key: int32(ValKey(v)), Val: v, T1: t, T2: t, Aux: cost, W1: l.now()}
	if kind != EvOnExit {
		e.TTL = int64(keyHash) // the item's key hash as reported
	}
	l.cbMu.Lock()
	l.cb = append(l.cb, e)
	l.cbMu.Unlock()
	if d := l.CbDelay; d != nil {
		d(kind)
	}
}

// LogHook appends a hook observation to the callback log.
func (l *Lab) LogHook(point int, arg uint64) {
	t := l.Clk.Add(1)
	l.cbMu.Lock()
	l.cb = append(l.cb, Ev{Kind: EvHook, G: -2, Key: int32(point), Val: arg, T1: t, T2: t, W1: l.now()})
	l.cbMu.Unlock()
}

// Client is one logical client (one goroutine) with its own event buffer.
type Client struct {
	L   *Lab
	ID  int
	Log []Ev
	seq uint32
}

func (l *Lab) NewClient() *Client {
	c := &Client{L: l, ID: len(l.clients)}
	l.clients = append(l.clients, c)
	return c
}

// NextVal issues a fresh unique value for a key.
func (c *Client) NextVal(key int) uint64 {
	c.seq++
	return MakeVal(key, c.ID, c.seq)
}

// NextValParity issues a fresh value whose sequence number is odd / even (ShouldUpdate "parity" refuses odd ones).
func (c *Client) NextValParity(key int, odd bool) uint64 {
	c.seq++
	if (c.seq%2 == 1) != odd {
		c.seq++
	}
	return MakeVal(key, c.ID, c.seq)
}

func (c *Client) Get(k int) (uint64, bool) {
	e := Ev{Kind: EvGet, G: int16(c.ID), Key: int32(k), T1: c.L.Clk.Add(1), W1: c.L.now()}
	v, ok := c.L.C.Get(k)
	e.W2 = c.L.now()
	e.T2 = c.L.Clk.Add(1)
	e.Val, e.Ok = v, ok
	c.Log = append(c.Log, e)
	return v, ok
}

func (c *Client) Set(k int, v uint64, cost int64, ttl time.Duration) bool {
	e := Ev{Kind: EvSet, G: int16(c.ID), Key: int32(k), Val: v, Aux: cost, TTL: int64(ttl), T1: c.L.Clk.Add(1), W1: c.L.now()}
	ok := c.L.C.SetWithTTL(k, v, cost, ttl)
	e.W2 = c.L.now()
	e.T2 = c.L.Clk.Add(1)
	e.Ok = ok
	c.Log = append(c.Log, e)
	return ok
}

func (c *Client) Del(k int) {
	e := Ev{Kind: EvDel, G: int16(c.ID), Key: int32(k), T1: c.L.Clk.Add(1), W1: c.L.now()}
	c.L.C.Del(k)
	e.W2 = c.L.now()
	e.T2 = c.L.Clk.Add(1)
	c.Log = append(c.Log, e)
}

func (c *Client) GetTTL(k int) (time.Duration, bool) {
	e := Ev{Kind: EvGetTTL, G: int16(c.ID), Key: int32(k), T1: c.L.Clk.Add(1), W1: c.L.now()}
	d, ok := c.L.C.GetTTL(k)
	e.W2 = c.L.now()
	e.T2 = c.L.Clk.Add(1)
	e.Aux, e.Ok = int64(d), ok
	c.Log = append(c.Log, e)
	return d, ok
}

// IterValues records one EvIter per yielded value and one EvIterDone; stopAfter<0 means never stop.
func (c *Client) IterValues(stopAfter int) (vals []uint64) {
	t1 := c.L.Clk.Add(1)
	w1 := c.L.now()
	n := 0
	c.L.C.IterValues(func(v uint64) bool {
		ty := c.L.Clk.Add(1)
		c.Log = append(c.Log, Ev{Kind: EvIter, G: int16(c.ID), Key: int32(ValKey(v)), Val: v, T1: ty, T2: ty, Aux: t1, W1: w1, W2: c.L.now()})
		vals = append(vals, v)
		n++
		return stopAfter >= 0 && n >= stopAfter
	})
	c.Log = append(c.Log, Ev{Kind: EvIterDone, G: int16(c.ID), Key: -1, T1: t1, T2: c.L.Clk.Add(1), Aux: int64(n), TTL: int64(stopAfter), W1: w1, W2: c.L.now()})
	return
}

func (c *Client) simple(kind int, f func()) {
	e := Ev{Kind: uint8(kind), G: int16(c.ID), Key: -1, T1: c.L.Clk.Add(1), W1: c.L.now()}
	f()
	e.W2 = c.L.now()
	e.T2 = c.L.Clk.Add(1)
	c.Log = append(c.Log, e)
}

func (c *Client) Wait()  { c.simple(EvWait, c.L.C.Wait) }
func (c *Client) Clear() { c.simple(EvClear, c.L.C.Clear) }
func (c *Client) Close() { c.simple(EvClose, c.L.C.Close) }
func (c *Client) UpdateMaxCost(n int64) {
	e := Ev{Kind: EvMaxCost, G: int16(c.ID), Key: -1, Aux: n, T1: c.L.Clk.Add(1)}
	c.L.C.UpdateMaxCost(n)
	e.T2 = c.L.Clk.Add(1)
	c.Log = append(c.Log, e)
}

// Merged returns all events (clients + callbacks) ordered by T1. Call only
// when every client goroutine has been joined.
func (l *Lab) Merged() []Ev {
	n := 0
	for _, c := range l.clients {
		n += len(c.Log)
	}
	l.cbMu.Lock()
	out := make([]Ev, 0, n+len(l.cb))
	out = append(out, l.cb...)
	l.cbMu.Unlock()
	for _, c := range l.clients {
		out = append(out, c.Log...)
	}
	sortEvs(out)
	return out
}

func sortEvs(evs []Ev) {
	// T1 values are unique (one atomic counter), so a plain sort is a total order
	quickSortEvs(evs)
}

func quickSortEvs(a []Ev) {
	for len(a) > 16 {
		p := a[len(a)/2].T1
		i, j := 0, len(a)-1
		for i <= j {
			for a[i].T1 < p {
				i++
			}
			for a[j].T1 > p {
				j--
			}
			if i <= j {
				a[i], a[j] = a[j], a[i]
				i++
				j--
			}
		}
		if j+1 < len(a)-i {
			quickSortEvs(a[:j+1])
			a = a[i:]
		} else {
			quickSortEvs(a[i:])
			a = a[:j+1]
		}
	}
	for i := 1; i < len(a); i++ {
		for j := i; j > 0 && a[j].T1 < a[j-1].T1; j-- {
			a[j], a[j-1] = a[j-1], a[j]
		}
	}
}

// MemHashCheck is used by C01's default-hash configurations to make sure the
// string key space is collision free under the runtime's hash seed.
func MemHashCheck(keys []string) bool {
	seen := map[uint64]struct{}{}
	for _, k := range keys {
		h := z.MemHashString(k)
		if _, dup := seen[h]; dup {
			return false
		}
		seen[h] = struct{}{}
	}
	return true
}

// NumCallbacks returns the number of (non-zero-valued) callback and hook records so far.
func (l *Lab) NumCallbacks() int {
	l.cbMu.Lock()
	defer l.cbMu.Unlock()
	return len(l.cb)
}

// CallbacksSince returns a copy of the callback records from index n on.
func (l *Lab) CallbacksSince(n int) []Ev {
	l.cbMu.Lock()
	defer l.cbMu.Unlock()
	return append([]Ev(nil), l.cb[n:]...)
}

// NewClientLocked registers a client while other goroutines may do the same.
func (l *Lab) NewClientLocked(mu *sync.Mutex) *Client {
	mu.Lock()
	defer mu.Unlock()
	return l.NewClient()
}

// shortKey(i): key 0 is empty; otherwise one non-zero byte followed by 0..7 zero bytes. Keys with the same first
// byte differ only in length (trailing zeros).
func shortKey(i int) []byte {
	if i == 0 {
		return []byte{}
	}
	i--
	k := make([]byte, 1+i%8)
	k[0] = byte(1 + i/8)
	return k
}

func longKey(i int) []byte {
	k := bytes.Repeat([]byte{'x'}, 1100)
	pos := []int{300, 548, 796}[i%3]
	for j := 0; j < 4; j++ {
		k[pos+j] = 0x80 | byte(i>>(6*(3-j)))&0x3f
	}
	return k
}

func longKeyIdx(k []byte) int {
	for p, b := range k {
		if b >= 0x80 && p+4 <= len(k) {
			i := 0
			for j := 0; j < 4; j++ {
				i = i<<6 | int(k[p+j]&0x3f)
			}
			return i
		}
	}
	return -1
}

func shortKeyIdx(k []byte) int {
	if len(k) == 0 {
		return 0
	}
	return 1 + (int(k[0])-1)*8 + len(k) - 1
}
