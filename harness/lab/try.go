package lab

import (
	"fmt"
	"runtime"
	"strings"
)

// Panic describes a recovered panic inside library code.
type Panic struct {
	Msg   string
	Frame string // innermost frame inside the ristretto module
	Stack string
}

const modPrefix = "github.com/dgraph-io/ristretto/v2"

// Try runs f and reports a panic, if any, with the innermost ristretto frame.
func Try(f func()) (p *Panic) {
	defer func() {
		if r := recover(); r != nil {
			pcs := make([]uintptr, 64)
			n := runtime.Callers(2, pcs)
			frames := runtime.CallersFrames(pcs[:n])
			var sb strings.Builder
			frame := ""
			for {
				fr, more := frames.Next()
				fmt.Fprintf(&sb, "%s\n\t%s:%d\n", fr.Function, fr.File, fr.Line)
				if frame == "" && strings.HasPrefix(fr.Function, modPrefix) {
					frame = strings.TrimPrefix(fr.Function, modPrefix)
				}
				if !more {
					break
				}
			}
			p = &Panic{Msg: fmt.Sprint(r), Frame: frame, Stack: sb.String()}
		}
	}()
	f()
	return nil
}

// Short returns a compact class for signatures: frame plus the message with
// digits removed.
func (p *Panic) Short() string {
	msg := p.Msg
	var sb strings.Builder
	for _, c := range msg {
		if c >= '0' && c <= '9' {
			continue
		}
		sb.WriteRune(c)
	}
	m := sb.String()
	if len(m) > 60 {
		m = m[:60]
	}
	return p.Frame + ":" + m
}
