package lab

import (
	"runtime"
	"sync/atomic"
	"time"
)

// Delayer injects pseudo-random small delays; safe for concurrent use.
type Delayer struct {
	seed uint64
	n    atomic.Uint64
	// Level scales the probability of a delay (0 = never, 1 = default).
	Level float64
	Count atomic.Int64
}

func NewDelayer(seed uint64, level float64) *Delayer { return &Delayer{seed: seed, Level: level} }

func splitmix(x uint64) uint64 {
	x += 0x9E3779B97F4A7C15
	x = (x ^ (x >> 30)) * 0xBF58476D1CE4E5B9
	x = (x ^ (x >> 27)) * 0x94D049BB133111EB
	return x ^ (x >> 31)
}

// Maybe possibly delays the caller: with probability 0.3*Level one of Gosched
// (60%), a 1-50us spin (30%) or a sleep of up to 1 ms (10%).
func (d *Delayer) Maybe() {
	if d == nil || d.Level <= 0 {
		return
	}
	x := splitmix(d.seed + d.n.Add(1))
	if float64(x%10000)/10000 >= 0.3*d.Level {
		return
	}
	y := (x >> 16) % 100
	switch {
	case y < 60:
		runtime.Gosched()
	case y < 90:
		end := time.Now().Add(time.Duration(1+(x>>32)%50) * time.Microsecond)
		for time.Now().Before(end) {
		}
	default:
		time.Sleep(time.Duration(1+(x>>32)%1000) * time.Microsecond)
	}
	d.Count.Add(1)
}
