// Package lab holds the monitors and plumbing shared by all property
// workloads: result/evidence accounting, the on-disk journal, the PRNG, the
// logical clock, the event log and the cache adapter.
package lab

import (
	"encoding/json"
	"fmt"
	"hash/fnv"
	"os"
	"regexp"
	"sort"
	"sync"
)

// Violation is one refuting observation. Signature is a short stable class
// name (used to match known findings), Detail is for humans, Case holds what
// is needed to replay it.
type Violation struct {
	Signature string `json:"signature"`
	Detail    string `json:"detail"`
	Case      any    `json:"case,omitempty"`
}

// Result is what a child process reports to the driver.
type Result struct {
	mu           sync.Mutex
	Property     string           `json:"property"`
	Part         string           `json:"part"`
	Seed         int64            `json:"seed"`
	Evaluations  int64            `json:"evaluations"`
	Distinct     []string         `json:"distinct"`
	DistinctMore int64            `json:"distinct_more"` // distinct classes beyond the listed ones (the list is capped)
	Rule         string           `json:"rule"`
	Samples      []any            `json:"samples"`
	Observations map[string]int64 `json:"observations"`
	Violations   []Violation      `json:"violations"`
	Inconclusive int64            `json:"inconclusive"`
	Notes        []string         `json:"notes,omitempty"`
	Exhaustive   []string         `json:"exhaustive,omitempty"`

	distinct map[uint64]struct{}
	vioSeen  map[string]int
}

func NewResult(prop, part string, seed int64) *Result {
	return &Result{Property: prop, Part: part, Seed: seed,
		Observations: map[string]int64{}, distinct: map[uint64]struct{}{}, vioSeen: map[string]int{}}
}

// Eval counts one executed case.
func (r *Result) Eval(n int64) {
	r.mu.Lock()
	r.Evaluations += n
	r.mu.Unlock()
}

// Obs adds to a named observation counter.
func (r *Result) Obs(name string, n int64) {
	r.mu.Lock()
	r.Observations[name] += n
	r.mu.Unlock()
}

// ObsMax keeps the maximum of a named observation.
func (r *Result) ObsMax(name string, n int64) {
	r.mu.Lock()
	if n > r.Observations[name] {
		r.Observations[name] = n
	}
	r.mu.Unlock()
}

// DistinctKey records one non-trivial case class (any printable description).
func (r *Result) DistinctKey(format string, a ...any) {
	h := fnv.New64a()
	fmt.Fprintf(h, format, a...)
	r.DistinctHash(h.Sum64())
}

func (r *Result) DistinctHash(x uint64) {
	r.mu.Lock()
	if len(r.distinct) < 4000000 {
		r.distinct[x] = struct{}{}
	}
	r.mu.Unlock()
}

// Sample keeps up to max written-out cases.
func (r *Result) Sample(max int, s any) {
	r.mu.Lock()
	if len(r.Samples) < max {
		r.Samples = append(r.Samples, s)
	}
	r.mu.Unlock()
}

// Violate records a violation; at most 5 per signature are kept in full.
func (r *Result) Violate(sig, detail string, c any) {
	r.mu.Lock()
	r.vioSeen[sig]++
	if r.vioSeen[sig] <= 5 {
		r.Violations = append(r.Violations, Violation{sig, detail, c})
	}
	r.Observations["violations_total"]++
	r.mu.Unlock()
}

// timeoutSig matches the violation classes that are decided by a wall-clock bound alone.
var timeoutSig = regexp.MustCompile(`call-stuck|wait-stuck|goroutine-leak|waiter-not-released|cache-undercount|not-empty-after-expire|buffer-protocol`)

// DemoteTimeoutVerdicts turns violations of the wall-clock-bound classes into inconclusive results.
func (r *Result) DemoteTimeoutVerdicts(lateMs int64) {
	r.mu.Lock()
	defer r.mu.Unlock()
	kept := r.Violations[:0]
	for _, v := range r.Violations {
		if timeoutSig.MatchString(v.Signature) {
			r.Inconclusive++
			r.Observations["violations_total"]--
			r.vioSeen[v.Signature]--
			if len(r.Notes) < 50 {
				r.Notes = append(r.Notes, fmt.Sprintf("timeout-based finding %s not counted: this process's canary goroutine ran up to %d ms late (machine overloaded): %s", v.Signature, lateMs, v.Detail))
			}
			continue
		}
		kept = append(kept, v)
	}
	r.Violations = kept
}

func (r *Result) NumViolations() int {
	r.mu.Lock()
	defer r.mu.Unlock()
	return len(r.Violations)
}

func (r *Result) Note(format string, a ...any) {
	r.mu.Lock()
	if len(r.Notes) < 50 {
		r.Notes = append(r.Notes, fmt.Sprintf(format, a...))
	}
	r.mu.Unlock()
}

func (r *Result) Inconc(n int64) {
	r.mu.Lock()
	r.Inconclusive += n
	r.mu.Unlock()
}

// Write stores the result as JSON.
func (r *Result) Write(path string) error {
	r.mu.Lock()
	defer r.mu.Unlock()
	r.Distinct = r.Distinct[:0]
	keys := make([]uint64, 0, len(r.distinct))
	for k := range r.distinct {
		keys = append(keys, k)
	}
	sort.Slice(keys, func(i, j int) bool { return keys[i] < keys[j] })
	const listCap = 60000
	r.DistinctMore = 0
	if len(keys) > listCap {
		r.DistinctMore = int64(len(keys) - listCap)
		keys = keys[:listCap]
	}
	for _, k := range keys {
		r.Distinct = append(r.Distinct, fmt.Sprintf("%x", k))
	}
	for sig, n := range r.vioSeen {
		r.Observations["violations["+sig+"]"] = int64(n)
	}
	b, err := json.Marshal(r)
	if err != nil {
		return err
	}
	tmp := path + ".tmp"
	if err := os.WriteFile(tmp, b, 0o644); err != nil {
		return err
	}
	return os.Rename(tmp, path)
}

// Journal is an append-only file; the case about to run is written before it
// runs so that a crash is attributable to it.
type Journal struct {
	mu sync.Mutex
	f  *os.File
}

func OpenJournal(path string) *Journal {
	if path == "" {
		return &Journal{}
	}
	f, err := os.OpenFile(path, os.O_CREATE|os.O_WRONLY|os.O_TRUNC, 0o644)
	if err != nil {
		panic(err)
	}
	return &Journal{f: f}
}

// Case records the case that is about to be executed (one JSON line).
func (j *Journal) Case(c any) {
	if j == nil || j.f == nil {
		return
	}
	b, _ := json.Marshal(c)
	b = append(b, '\n')
	j.mu.Lock()
	j.f.Write(b)
	j.mu.Unlock()
}

// Rewind truncates the journal (keeps it small in long runs); the last case
// stays because it is written after the truncation.
func (j *Journal) Rewind() {
	if j == nil || j.f == nil {
		return
	}
	j.mu.Lock()
	j.f.Truncate(0)
	j.f.Seek(0, 0)
	j.mu.Unlock()
}
