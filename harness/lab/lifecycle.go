package lab

import (
	"fmt"
)

// ValInfo is everything the log says about one unique value.
type ValInfo struct {
	Val     uint64
	Set     *Ev
	Evicts  []int64
	Rejects []int64
	Exits   []int64
	Hits    int
}

// Analysis is the merged log indexed by value.
type Analysis struct {
	Evs    []Ev
	Vals   map[uint64]*ValInfo
	Clears []Ev // Clear and Close calls, in T1 order
	// Report receives violations: class, detail, witness events
	Counts map[string]int64
}

func Analyze(evs []Ev) *Analysis {
	a := &Analysis{Evs: evs, Vals: map[uint64]*ValInfo{}, Counts: map[string]int64{}}
	get := func(v uint64) *ValInfo {
		vi := a.Vals[v]
		if vi == nil {
			vi = &ValInfo{Val: v}
			a.Vals[v] = vi
		}
		return vi
	}
	for i := range evs {
		e := &evs[i]
		a.Counts[EvNames[int(e.Kind)]]++
		switch e.Kind {
		case EvSet:
			vi := get(e.Val)
			if vi.Set != nil {
				panic(fmt.Sprintf("harness: value %#x issued twice", e.Val))
			}
			vi.Set = e
		case EvOnEvict:
			vi := get(e.Val)
			vi.Evicts = append(vi.Evicts, e.T1)
		case EvOnReject:
			vi := get(e.Val)
			vi.Rejects = append(vi.Rejects, e.T1)
		case EvOnExit:
			vi := get(e.Val)
			vi.Exits = append(vi.Exits, e.T1)
		case EvClear, EvClose:
			a.Clears = append(a.Clears, *e)
		}
	}
	return a
}

// Witness collects the history of the value's key from shortly before the value was issued until
// shortly after its last callback (bounded), with the events that mention the value marked.
func (a *Analysis) Witness(v uint64, extra ...Ev) []string {
	var out []string
	vi := a.Vals[v]
	key := int32(ValKey(v))
	lo, hi := int64(1<<62), int64(0)
	upd := func(t int64) {
		if t < lo {
			lo = t
		}
		if t > hi {
			hi = t
		}
	}
	if vi != nil {
		if vi.Set != nil {
			upd(vi.Set.T1)
			upd(vi.Set.T2)
		}
		for _, t := range vi.Exits {
			upd(t)
		}
		for _, t := range vi.Evicts {
			upd(t)
		}
		for _, t := range vi.Rejects {
			upd(t)
		}
	}
	for _, e := range extra {
		upd(e.T1)
		upd(e.T2)
	}
	lo -= 40
	hi += 10
	n := 0
	for i := range a.Evs {
		e := a.Evs[i]
		if e.T1 < lo || e.T1 > hi {
			continue
		}
		mark := "   "
		if e.Val == v && e.Kind != EvHook {
			mark = "** "
		} else if e.Kind == EvClear || e.Kind == EvClose || e.Kind == EvWait {
			mark = " . "
		} else if e.Key != key || e.Kind == EvHook {
			continue
		} else if e.Kind == EvGet && mark == "   " && n > 150 {
			continue
		}
		out = append(out, mark+e.String())
		n++
		if n > 400 {
			out = append(out, "... (truncated)")
			break
		}
	}
	return out
}

type Reporter func(sig, detail string, witness any)

// CheckProvenance (C01): every hit returns a value issued for an equal key by a Set that began before the Get returned.
func (a *Analysis) CheckProvenance(rep Reporter) (hits int64) {
	for i := range a.Evs {
		e := a.Evs[i]
		isGet := e.Kind == EvGet && e.Ok
		isIter := e.Kind == EvIter
		if !isGet && !isIter {
			continue
		}
		hits++
		vi := a.Vals[e.Val]
		what := "Get"
		if isIter {
			what = "IterValues"
		}
		if e.Val == 0 {
			rep("hit-with-zero-value", fmt.Sprintf("%s reported found=true with the zero value, which is never issued: %s", what, e), nil)
			continue
		}
		if vi == nil || vi.Set == nil {
			rep("value-never-stored", fmt.Sprintf("%s returned %#x which no Set supplied: %s", what, e.Val, e), nil)
			continue
		}
		vi.Hits++
		if isGet && int(vi.Set.Key) != int(e.Key) {
			rep("value-of-other-key", fmt.Sprintf("Get(key %d) returned %#x which was written under key %d", e.Key, e.Val, vi.Set.Key), a.Witness(e.Val, e))
			continue
		}
		if vi.Set.T1 > e.T2 {
			rep("value-from-the-future", fmt.Sprintf("%s returned %#x at clock %d but its Set was only called at %d", what, e.Val, e.T2, vi.Set.T1), a.Witness(e.Val, e))
		}
	}
	return
}

// CheckNoHitAfterExit (C02): no Get/IterValues that starts after OnExit(v) was entered returns v.
func (a *Analysis) CheckNoHitAfterExit(rep Reporter) (checked int64) {
	for i := range a.Evs {
		e := a.Evs[i]
		var call int64
		switch {
		case e.Kind == EvGet && e.Ok:
			call = e.T1
		case e.Kind == EvIter:
			call = e.Aux
		default:
			continue
		}
		vi := a.Vals[e.Val]
		if vi == nil {
			continue
		}
		checked++
		for _, x := range vi.Exits {
			if x < call {
				how := "Get"
				if e.Kind == EvIter {
					how = "IterValues"
				}
				rep("hit-after-exit/"+how, fmt.Sprintf("%s that started at clock %d returned %#x, which was passed to OnExit at clock %d", how, call, e.Val, x), a.Witness(e.Val, e))
				break
			}
		}
	}
	return
}

// CheckLifecycle (C04): exactly-once exit of accepted values by the next
// Clear/Close, no callback for refused values, evict/reject at most once and
// followed by exit. finalDeadline is the return clock of the episode's final
// Close/Clear (0: none).
func (a *Analysis) CheckLifecycle(rep Reporter) (accepted, refused int64) {
	for v, vi := range a.Vals {
		if vi.Set == nil {
			rep("callback-for-unknown-value", fmt.Sprintf("callback received value %#x that no Set supplied", v), a.Witness(v))
			continue
		}
		ncb := len(vi.Evicts) + len(vi.Rejects) + len(vi.Exits)
		if !vi.Set.Ok {
			refused++
			if ncb > 0 {
				rep("callback-for-refused-value", fmt.Sprintf("Set returned false for %#x but it was passed to %d callback(s)", v, ncb), a.Witness(v))
			}
			continue
		}
		accepted++
		if len(vi.Exits) > 1 {
			rep("double-exit", fmt.Sprintf("value %#x passed to OnExit %d times", v, len(vi.Exits)), a.Witness(v))
		}
		if len(vi.Evicts) > 1 {
			rep("double-evict", fmt.Sprintf("value %#x passed to OnEvict %d times", v, len(vi.Evicts)), a.Witness(v))
		}
		if len(vi.Rejects) > 1 {
			rep("double-reject", fmt.Sprintf("value %#x passed to OnReject %d times", v, len(vi.Rejects)), a.Witness(v))
		}
		for _, t := range append(append([]int64{}, vi.Evicts...), vi.Rejects...) {
			ok := false
			for _, x := range vi.Exits {
				if x > t {
					ok = true
				}
			}
			if !ok {
				rep("evict-or-reject-without-exit", fmt.Sprintf("value %#x reported through OnEvict/OnReject at %d but no OnExit follows", v, t), a.Witness(v))
			}
		}
		// deadline: the first Clear/Close called after the Set returned
		for _, c := range a.Clears {
			if c.T1 > vi.Set.T2 {
				ok := false
				for _, x := range vi.Exits {
					if x < c.T2 {
						ok = true
					}
				}
				if !ok && a.releasedByInFlightCall(vi, c) {
					// the value had been detached by an overwriting Set / a Del that was in flight during the
					// Clear and called OnExit only after the Clear returned (known finding KF1)
					rep("late-exit-by-in-flight-call", fmt.Sprintf("accepted value %#x was detached by a client call that was in flight during %s and passed to OnExit only at clock %d, after %s returned (clock %d)", v, EvNames[int(c.Kind)], vi.Exits[0], EvNames[int(c.Kind)], c.T2), a.Witness(v, c))
				} else if !ok {
					rep("no-exit-by-clear-or-close", fmt.Sprintf("accepted value %#x (Set returned at %d) was not passed to OnExit by the return (clock %d) of the next %s", v, vi.Set.T2, c.T2, EvNames[int(c.Kind)]), a.Witness(v, c))
				}
				break
			}
		}
	}
	return
}

// releasedByInFlightCall reports whether the value's (single) exit happened inside a Set/Del call on the
// same key that had been called before the Clear/Close c returned.
func (a *Analysis) releasedByInFlightCall(vi *ValInfo, c Ev) bool {
	if len(vi.Exits) != 1 || len(vi.Evicts) != 0 || len(vi.Rejects) != 0 {
		return false
	}
	x := vi.Exits[0]
	key := vi.Set.Key
	for i := range a.Evs {
		e := &a.Evs[i]
		if (e.Kind == EvSet || e.Kind == EvDel) && e.Key == key && e.T1 < c.T2 && e.T1 < x && x < e.T2 {
			return true
		}
	}
	return false
}
