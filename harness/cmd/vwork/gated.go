package main

// Gated sequential engine: a single logical client drives the cache while the
// applier goroutine is single-stepped through the vpApplierItem hook, so the
// lag of the applier is an explicit, enumerable quantity. A reference model
// (map + explicit FIFO of pending writes + capacity accounting + metrics)
// predicts every observable result, every callback and the white-box snapshot.
// Used by C05 C06 C15 and the gated parts of C03 C04 C13 C17.

import (
	"fmt"
	"runtime"
	"sort"
	"strings"
	"sync"
	"time"

	ristretto "github.com/dgraph-io/ristretto/v2"
	"verif/harness/lab"
)

const (
	gNew = iota
	gDelete
	gUpdate
	gWait
)

type gItem struct {
	flag int
	key  int
	val  uint64
	cost int64
	ttl  time.Duration
	t0   time.Time
	t1   time.Time
	done chan struct{} // wait markers: closed when the helper's Wait() returned
}

type gEntry struct {
	val    uint64
	ttl    time.Duration
	t0, t1 time.Time
}

type gCB struct {
	kind int
	val  uint64
}

type gMetrics struct {
	hits, misses, keysAdded, keysEvicted, keysUpdated, costAdded, costEvicted, setsDropped uint64
}

type gModel struct {
	B              int
	fifo           []gItem
	held           bool
	store          map[int]gEntry
	policy         map[int]int64
	maxCost, used  int64
	ignoreInternal bool
	costFn         bool
	metricsOn      bool
	suParity       bool // Config.ShouldUpdate refuses values with an odd sequence number (only asked for stored keys)
	closed         bool
	m              gMetrics
	getsTotal      int64
	enq            int // items ever enqueued into the write buffer
}

func (m *gModel) chanLen() int {
	if m.held {
		return len(m.fifo) - 1
	}
	return len(m.fifo)
}

// mismatch classes and the properties that own them
var gOwners = map[string][]string{
	"set-result":          {"C06", "C04", "C17"},
	"get-mismatch":        {"C06", "C05"},
	"getttl-mismatch":     {"C06", "C07"},
	"iter-mismatch":       {"C06", "C13"},
	"wait-early":          {"C06"},
	"wait-stuck":          {"C06", "C08", "C15"},
	"callback-mismatch":   {"C04", "C05", "C15"},
	"snapshot-policy":     {"C13", "C03"},
	"snapshot-store":      {"C13", "C06"},
	"snapshot-used":       {"C03", "C13"},
	"snapshot-remaining":  {"C03"},
	"snapshot-buffer":     {"C06"},
	"buffer-protocol":     {"C05", "C06"},
	"snapshot-expiry":     {"C14", "C13"},
	"metrics-mismatch":    {"C17"},
	"clear-postcondition": {"C15"},
	"close-postcondition": {"C15"},
	"call-stuck":          {"C15", "C08"},
	"goroutine-leak":      {"C15"},
}

type gOp struct {
	Op   string        `json:"op"`
	Key  int           `json:"key,omitempty"`
	Cost int64         `json:"cost,omitempty"`
	TTL  time.Duration `json:"ttl,omitempty"`
	N    int           `json:"n,omitempty"`
}

func (o gOp) String() string {
	switch o.Op {
	case "set":
		return fmt.Sprintf("Set(k%d,cost=%d,ttl=%v)", o.Key, o.Cost, o.TTL)
	case "del", "get", "getttl":
		return fmt.Sprintf("%s(k%d)", o.Op, o.Key)
	case "step":
		return fmt.Sprintf("apply(%d)", max(1, o.N))
	}
	return o.Op
}

type gCase struct {
	Name    string       `json:"name"`
	Cfg     lab.CacheCfg `json:"cfg"`
	Ops     []gOp        `json:"ops,omitempty"`
	Stream  uint64       `json:"stream"`
	NOps    int          `json:"nops,omitempty"`
	Failure string       `json:"failure,omitempty"`
	Trace   []string     `json:"trace_tail,omitempty"`
}

type gRun struct {
	c            *Ctx
	prop         string
	cs           *gCase
	l            *lab.Lab
	g            *lab.Gate
	cl           *lab.Client
	helper       *lab.Client
	m            *gModel
	trace        []string
	failed       bool
	foreign      int
	pendingWaits []gItem
	opsDone      int
}

func (x *gRun) tr(f string, a ...any) {
	x.trace = append(x.trace, fmt.Sprintf(f, a...))
	if len(x.trace) > 80 {
		x.trace = append(x.trace[:0], x.trace[40:]...)
	}
}

// mismatch reports a disagreement between the cache and the model, if the property under check owns the class.
func (x *gRun) mismatch(class, detail string) {
	owned := false
	for _, p := range gOwners[class] {
		if p == x.prop {
			owned = true
		}
	}
	if _, known := gOwners[class]; !known && class != "harness" {
		panic("harness: unknown mismatch class " + class)
	}
	if class == "harness" {
		gatedHarnessProblems++
		x.failed = true
		x.c.R.Note("gated episode %s: harness problem: %s", x.cs.Name, detail)
		x.c.R.Inconc(1)
		return
	}
	if !owned {
		x.foreign++
		// a deviation from the model that another property owns: count it and carry on, so that
		// its consequences for this property (if any) are still observed
		x.c.R.Obs("mismatch_owned_by_other_property["+class+"]", 1)
		if x.foreign > 20 {
			x.failed = true
		}
		return
	}
	x.failed = true
	cs := *x.cs
	cs.Failure = class
	cs.Trace = append([]string(nil), x.trace[max(0, len(x.trace)-30):]...)
	x.c.R.Violate(x.prop+"/gated/"+class, fmt.Sprintf("[%s] %s", x.cs.Name, detail), cs)
}

func newGRun(c *Ctx, prop string, cs *gCase) (*gRun, error) {
	l, err := lab.NewLab(cs.Cfg)
	if err != nil {
		return nil, err
	}
	x := &gRun{c: c, prop: prop, cs: cs, l: l}
	x.g = lab.NewGate(l)
	x.cl = l.NewClient()
	x.helper = l.NewClient()
	B := cs.Cfg.SetBuf
	if B == 0 {
		B = 32 * 1024
	}
	x.m = &gModel{B: B, store: map[int]gEntry{}, policy: map[int]int64{}, maxCost: cs.Cfg.MaxCost,
		ignoreInternal: cs.Cfg.IgnoreInternalCost, costFn: cs.Cfg.CostFn == "keycost", metricsOn: cs.Cfg.Metrics, suParity: cs.Cfg.ShouldUpdate == "parity"}
	return x, nil
}

// expectCallbacks compares the non-zero callbacks recorded since index n0 with the expected multiset.
func (x *gRun) expectCallbacks(n0 int, want []gCB, where string) {
	got := x.l.CallbacksSince(n0)
	var gs, ws []string
	for _, e := range got {
		if e.Kind == lab.EvHook {
			continue
		}
		gs = append(gs, fmt.Sprintf("%s(%#x)", lab.EvNames[int(e.Kind)], e.Val))
	}
	for _, w := range want {
		ws = append(ws, fmt.Sprintf("%s(%#x)", lab.EvNames[w.kind], w.val))
	}
	sort.Strings(gs)
	sort.Strings(ws)
	if strings.Join(gs, " ") != strings.Join(ws, " ") {
		x.mismatch("callback-mismatch", fmt.Sprintf("%s: callbacks observed %v, expected %v", where, gs, ws))
	}
}

// syncBuffer checks that the number of items that entered the write buffer is what the model expects
// (items dequeued by the applier + items in the channel). The client call has returned, so its send is done.
func (x *gRun) syncBuffer(what string) bool {
	// The applier may have received an item and not yet reached its hook: that state is transient, so the comparison
	// is repeated. The bound is a watchdog, not a verdict by itself: it only counts when the process's canary shows
	// that goroutines were being scheduled on time while it ran (otherwise the episode is inconclusive).
	t0 := time.Now()
	deadline := t0.Add(20 * time.Second)
	for {
		got := x.g.Taken() + x.l.C.Snapshot().SetBufLen
		if got == x.m.enq {
			return true
		}
		if time.Now().After(deadline) {
			x.timedOut("buffer-protocol", fmt.Sprintf("%s: %d items have entered the write buffer, the reference FIFO of pending writes has %d (unchanged for 20 s)", what, got, x.m.enq))
			return false
		}
		if time.Since(t0) > 50*time.Millisecond {
			time.Sleep(time.Millisecond)
		} else {
			runtime.Gosched()
		}
	}
}

// gatedCanary measures how late a ticker goroutine of this process runs; started on first use.
var (
	gatedCanary     *lab.Watchdog
	gatedCanaryOnce sync.Once
)

func gatedCanaryLateMs() int64 {
	gatedCanaryOnce.Do(func() { gatedCanary = lab.NewWatchdog(1, 24*time.Hour, func(string, bool, string) {}) })
	return gatedCanary.MaxLateMs()
}

// timedOut reports a mismatch whose only evidence is that something did not happen within a generous wall-clock
// bound: a violation if the process was demonstrably being scheduled normally, inconclusive otherwise.
func (x *gRun) timedOut(class, detail string) {
	if late := gatedCanaryLateMs(); late > 1000 {
		x.mismatch("harness", fmt.Sprintf("%s - not counted: the canary goroutine of this process ran up to %d ms late (machine overloaded)", detail, late))
		return
	}
	x.mismatch(class, detail)
}

func (x *gRun) awaitHeldIfNeeded() {
	if x.failed {
		return
	}
	if !x.m.held && len(x.m.fifo) > 0 {
		if err := x.g.AwaitHeld(); err != nil {
			x.mismatch("harness", err.Error())
			return
		}
		x.m.held = true
	}
}

func (m *gModel) itemCost(it gItem) int64 {
	cost := it.cost
	if cost == 0 && m.costFn && it.flag != gDelete {
		cost = lab.KeyCost(it.key)
	}
	if !m.ignoreInternal {
		cost += ristretto.VerifItemSize()
	}
	return cost
}

// apply mirrors processItems for one item; returns the expected callbacks.
func (m *gModel) apply(it gItem) (cbs []gCB, evictionNeeded bool) {
	cost := m.itemCost(it)
	switch it.flag {
	case gWait:
	case gNew:
		prev, has := m.policy[it.key]
		switch {
		case cost > m.maxCost:
			cbs = append(cbs, gCB{lab.EvOnReject, it.val}, gCB{lab.EvOnExit, it.val})
		case has:
			m.m.keysUpdated++
			m.m.costAdded += uint64(cost - prev)
			m.used += cost - prev
			m.policy[it.key] = cost
			cbs = append(cbs, gCB{lab.EvOnReject, it.val}, gCB{lab.EvOnExit, it.val})
		case m.used+cost <= m.maxCost:
			m.policy[it.key] = cost
			m.used += cost
			m.m.costAdded += uint64(cost)
			m.m.keysAdded++
			m.store[it.key] = gEntry{it.val, it.ttl, it.t0, it.t1}
		default:
			evictionNeeded = true
		}
	case gUpdate:
		if prev, has := m.policy[it.key]; has {
			m.m.keysUpdated++
			m.m.costAdded += uint64(cost - prev)
			m.used += cost - prev
			m.policy[it.key] = cost
		}
	case gDelete:
		if c, has := m.policy[it.key]; has {
			m.used -= c
			delete(m.policy, it.key)
			m.m.costEvicted += uint64(c)
			m.m.keysEvicted++
		}
		if e, has := m.store[it.key]; has {
			cbs = append(cbs, gCB{lab.EvOnExit, e.val})
			delete(m.store, it.key)
		}
	}
	return
}

// step lets the applier apply the item it holds.
func (x *gRun) step() {
	if !x.m.held {
		return
	}
	it := x.m.fifo[0]
	n0 := x.l.NumCallbacks()
	cbs, evict := x.m.apply(it)
	if evict {
		x.mismatch("harness", "generator produced an eviction in an ample-capacity episode")
		return
	}
	x.tr("  applier applies %s", itemString(it))
	if err := x.g.Step(); err != nil {
		x.mismatch("harness", err.Error())
		return
	}
	x.m.fifo = x.m.fifo[1:]
	x.m.held = false
	x.awaitHeldIfNeeded()
	x.expectCallbacks(n0, cbs, "applying "+itemString(it))
	if it.flag == gWait {
		select {
		case <-it.done:
		case <-time.After(30 * time.Second):
			x.timedOut("wait-stuck", "Wait() did not return within 30 s although its marker was applied")
		}
		for i, p := range x.pendingWaits {
			if p.done == it.done {
				x.pendingWaits = append(x.pendingWaits[:i], x.pendingWaits[i+1:]...)
				break
			}
		}
	}
	x.c.R.Obs("gated_items_applied", 1)
}

func itemString(it gItem) string {
	switch it.flag {
	case gNew:
		return fmt.Sprintf("new(k%d,%#x)", it.key, it.val)
	case gUpdate:
		return fmt.Sprintf("update(k%d,%#x)", it.key, it.val)
	case gDelete:
		return fmt.Sprintf("tombstone(k%d)", it.key)
	}
	return "wait-marker"
}

func (x *gRun) makeRoom() {
	// blocking sends (Del, Wait) need a free slot in the channel
	for x.m.chanLen() >= x.m.B && !x.failed {
		x.step()
	}
}

func (x *gRun) doSet(k int, cost int64, ttl time.Duration) {
	m := x.m
	v := x.cl.NextVal(k)
	wantOK := true
	var cbs []gCB
	it := gItem{flag: gNew, key: k, val: v, cost: cost, ttl: ttl}
	enq := false
	_, hadEntry := m.store[k]
	switch {
	case m.closed || ttl < 0:
		wantOK = false
	default:
		if e, has := m.store[k]; has && !(m.suParity && lab.ValSeq(v)%2 == 1) {
			cbs = append(cbs, gCB{lab.EvOnExit, e.val})
			it.flag = gUpdate
		}
		// (a re-write that ShouldUpdate refuses leaves the entry alone and travels as a NEW item: the applier finds the
		// key tracked, adjusts its cost and turns the value away - or, if the key has left by then, inserts it)
		if m.chanLen() < m.B {
			enq = true
		} else if it.flag == gNew {
			wantOK = false
			m.m.setsDropped++
		}
	}
	n0 := x.l.NumCallbacks()
	it.t0 = time.Now()
	got := x.cl.Set(k, v, cost, ttl)
	it.t1 = time.Now()
	x.tr("Set(k%d,%#x,cost=%d,ttl=%v)=%v [buffered=%d]", k, v, cost, ttl, got, len(m.fifo))
	if it.flag == gUpdate {
		m.store[k] = gEntry{v, ttl, it.t0, it.t1}
	}
	if enq {
		m.fifo = append(m.fifo, it)
		m.enq++
	}
	if !x.syncBuffer(fmt.Sprintf("after Set(k%d)", k)) {
		return
	}
	x.awaitHeldIfNeeded()
	if got != wantOK {
		x.mismatch("set-result", fmt.Sprintf("Set(k%d) returned %v, model says %v (resident=%v, buffered=%d of %d)", k, got, wantOK, hadEntry, m.chanLen(), m.B))
		return
	}
	x.expectCallbacks(n0, cbs, fmt.Sprintf("Set(k%d)", k))
	cls := "new"
	if it.flag == gUpdate {
		cls = "update"
	}
	if !wantOK {
		cls += "-refused"
	} else if !enq {
		cls += "-dropped"
	}
	x.c.R.DistinctKey("%s/set/%s/pend%d/ttl%v", x.cs.Cfg.KeyKind, cls, min(len(m.fifo), 3), ttl != 0)
}

// doDelBlocked issues Del while the write buffer is full: the call removes the entry at once, then blocks on its
// tombstone send until the applier has applied one item. The applier is stepped while the call is in flight.
func (x *gRun) doDelBlocked(k int) {
	m := x.m
	n0 := x.l.NumCallbacks()
	var cbs []gCB
	_, had := m.store[k]
	if e, has := m.store[k]; has {
		cbs = append(cbs, gCB{lab.EvOnExit, e.val})
		delete(m.store, k)
	}
	reached := make(chan struct{}, 1)
	x.g.SetOther(func(point int, arg uint64) {
		if point == ristretto.VPDelAfterStore {
			select {
			case reached <- struct{}{}:
			default:
			}
		}
	})
	defer x.g.SetOther(nil)
	done := make(chan struct{})
	go func() { x.cl.Del(k); close(done) }()
	select {
	case <-reached:
	case <-time.After(10 * time.Second):
		x.mismatch("harness", "Del never reached the point after its immediate removal")
		return
	}
	x.tr("Del(k%d) called with a full write buffer [buffered=%d]", k, len(m.fifo))
	x.expectCallbacks(n0, cbs, fmt.Sprintf("immediate part of Del(k%d)", k))
	x.step() // makes room: the blocked tombstone send completes
	if x.failed {
		return
	}
	select {
	case <-done:
	case <-time.After(30 * time.Second):
		x.timedOut("call-stuck", fmt.Sprintf("Del(k%d) still blocked 30 s after the applier made room in the write buffer", k))
		return
	}
	m.fifo = append(m.fifo, gItem{flag: gDelete, key: k})
	m.enq++
	if !x.syncBuffer(fmt.Sprintf("after the blocked Del(k%d) returned", k)) {
		return
	}
	x.awaitHeldIfNeeded()
	x.c.R.Obs("gated_blocked_dels", 1)
	x.c.R.DistinctKey("del-blocked/resident=%v", had)
}

func (x *gRun) doDel(k int) {
	m := x.m
	if !m.closed && m.held && m.chanLen() >= m.B && x.opsDone%2 == 0 {
		x.doDelBlocked(k)
		return
	}
	if !m.closed {
		x.makeRoom()
		if x.failed {
			return
		}
	}
	var cbs []gCB
	n0 := x.l.NumCallbacks()
	_, had := m.store[k]
	if !m.closed {
		if e, has := m.store[k]; has {
			cbs = append(cbs, gCB{lab.EvOnExit, e.val})
			delete(m.store, k)
		}
		m.fifo = append(m.fifo, gItem{flag: gDelete, key: k})
		m.enq++
	}
	if !x.timed(func() { x.cl.Del(k) }, fmt.Sprintf("Del(k%d)", k)) {
		return
	}
	x.tr("Del(k%d) [buffered=%d]", k, len(m.fifo))
	if !x.syncBuffer(fmt.Sprintf("after Del(k%d)", k)) {
		return
	}
	x.awaitHeldIfNeeded()
	x.expectCallbacks(n0, cbs, fmt.Sprintf("Del(k%d)", k))
	pend := 0
	for _, it := range m.fifo {
		if it.key == k && it.flag != gWait && it.flag != gDelete {
			pend++
		}
	}
	x.c.R.DistinctKey("del/resident=%v/pending-writes=%d", had, min(pend, 3))
}

// timed runs a call that must return promptly; false (and a mismatch) if it does not.
func (x *gRun) timed(f func(), what string) bool {
	done := make(chan struct{})
	go func() { f(); close(done) }()
	select {
	case <-done:
		return true
	case <-time.After(30 * time.Second):
		x.timedOut("call-stuck", what+" did not return within 30 s")
		return false
	}
}

// liveness of a stored entry for an observation that ran in [g0,g1]: +1 alive (the observation finished before
// the earliest possible expiration), 0 expired (it started after the latest possible one), -1 in between.
func (e gEntry) liveness(g0, g1 time.Time) int {
	switch {
	case e.ttl == 0 || g1.Before(e.t0.Add(e.ttl)):
		return 1
	case g0.After(e.t1.Add(e.ttl)):
		return 0
	}
	return -1
}

func (x *gRun) doGet(k int) {
	m := x.m
	g0 := time.Now()
	v, ok := x.cl.Get(k)
	g1 := time.Now()
	e, has := m.store[k]
	if has && !m.closed {
		switch e.liveness(g0, g1) {
		case 0:
			has = false // expired but not swept (episodes with short TTLs run without sweeps): a miss
		case -1:
			m.getsTotal++
			if ok {
				m.m.hits++
			} else {
				m.m.misses++
			}
			if ok && v != e.val {
				x.mismatch("get-mismatch", fmt.Sprintf("Get(k%d) returned %#x, the entry holds %#x", k, v, e.val))
			}
			return // around the expiration instant either answer is right
		}
	}
	if m.closed {
		has = false
	} else {
		m.getsTotal++
		if has {
			m.m.hits++
		} else {
			m.m.misses++
		}
	}
	x.tr("Get(k%d)=(%#x,%v)", k, v, ok)
	if ok != has || (has && v != e.val) {
		pend := 0
		for _, it := range m.fifo {
			if it.key == k && it.flag != gWait {
				pend++
			}
		}
		x.mismatch("get-mismatch", fmt.Sprintf("Get(k%d)=(%#x,%v), reference says (%#x,%v) with %d pending writes for the key", k, v, ok, e.val, has, pend))
		return
	}
	x.c.R.DistinctKey("get/hit=%v/pend%d", ok, min(len(m.fifo), 3))
}

func (x *gRun) doGetTTL(k int) {
	m := x.m
	before := time.Now()
	d, ok := x.cl.GetTTL(k)
	after := time.Now()
	e, has := m.store[k]
	x.tr("GetTTL(k%d)=(%v,%v)", k, d, ok)
	if has {
		switch e.liveness(before, after) {
		case 0:
			has = false
		case -1:
			return
		}
	}
	if ok != has {
		x.mismatch("getttl-mismatch", fmt.Sprintf("GetTTL(k%d) found=%v, reference says %v", k, ok, has))
		return
	}
	if !has {
		return
	}
	if e.ttl == 0 {
		if d != 0 {
			x.mismatch("getttl-mismatch", fmt.Sprintf("GetTTL(k%d)=%v for an item written without TTL", k, d))
		}
		return
	}
	lo := e.ttl - time.Since(e.t0)
	hi := e.ttl - before.Sub(e.t1)
	if d > e.ttl || d > hi+time.Millisecond || d < lo-time.Millisecond {
		x.mismatch("getttl-mismatch", fmt.Sprintf("GetTTL(k%d)=%v for ttl %v written %v ago (expected within [%v,%v])", k, d, e.ttl, time.Since(e.t1), lo, hi))
	}
}

func (x *gRun) doIter() {
	m := x.m
	g0 := time.Now()
	vals := x.cl.IterValues(-1)
	g1 := time.Now()
	want := map[uint64]int{}
	maybe := map[uint64]bool{}
	if !m.closed {
		for _, e := range m.store {
			switch e.liveness(g0, g1) {
			case 1:
				want[e.val]++
			case -1:
				maybe[e.val] = true
			}
		}
	}
	got := map[uint64]int{}
	for _, v := range vals {
		got[v]++
	}
	x.tr("IterValues -> %d values", len(vals))
	for v, n := range got {
		if maybe[v] && n == 1 {
			continue
		}
		if want[v] != n {
			x.mismatch("iter-mismatch", fmt.Sprintf("IterValues yielded %#x %d time(s), reference holds it %d time(s)", v, n, want[v]))
			return
		}
	}
	for v := range want {
		if got[v] == 0 {
			x.mismatch("iter-mismatch", fmt.Sprintf("IterValues omitted resident value %#x", v))
			return
		}
	}
}

// doWait issues Wait() from a helper goroutine and, unless async, steps the applier until the marker is applied.
func (x *gRun) doWait(async bool) {
	m := x.m
	if m.closed {
		x.timed(func() { x.helper.Wait() }, "Wait() on a closed cache")
		return
	}
	x.makeRoom()
	if x.failed {
		return
	}
	it := gItem{flag: gWait, key: -1, done: make(chan struct{})}
	pendingBefore := len(m.fifo)
	_ = pendingBefore
	go func() {
		x.l.C.Wait() // not logged: several async waiters may be pending at once
		close(it.done)
	}()
	m.enq++
	if !x.syncBuffer("after Wait() was issued") {
		return
	}
	m.fifo = append(m.fifo, it)
	x.awaitHeldIfNeeded()
	x.tr("Wait() issued [buffered=%d]", len(m.fifo))
	x.c.R.DistinctKey("wait/pend%d/async=%v", min(pendingBefore, 4), async)
	if async {
		x.pendingWaits = append(x.pendingWaits, it)
		return
	}
	for !x.failed {
		// the marker is still unapplied: Wait must not have returned
		time.Sleep(50 * time.Microsecond)
		select {
		case <-it.done:
			x.mismatch("wait-early", fmt.Sprintf("Wait() returned while %d earlier buffered item(s) and its own marker were still unapplied", len(m.fifo)-1))
			return
		default:
		}
		isMarker := m.fifo[0].done == it.done
		x.step()
		if isMarker {
			break
		}
	}
}

// doClearOrClose runs Clear or Close from a helper goroutine, granting tokens one at a time until the applier stops.
func (x *gRun) doClearOrClose(closeIt bool) {
	m := x.m
	name := "Clear"
	if closeIt {
		name = "Close"
	}
	if m.closed {
		x.timed(func() {
			if closeIt {
				x.helper.Close()
			} else {
				x.helper.Clear()
			}
		}, name+"() on a closed cache")
		return
	}
	n0 := x.l.NumCallbacks()
	s0 := x.g.Stopped()
	done := make(chan struct{})
	go func() {
		if closeIt {
			x.helper.Close()
		} else {
			x.helper.Clear()
		}
		close(done)
	}()
	var cbs []gCB
	appliedBeforeStop := 0
	for !x.failed {
		if m.held {
			it := m.fifo[0]
			c, evict := m.apply(it)
			if evict {
				x.mismatch("harness", "eviction in ample-capacity episode")
				return
			}
			cbs = append(cbs, c...)
			if err := x.g.Step(); err != nil {
				x.mismatch("harness", err.Error())
				return
			}
			appliedBeforeStop++
			m.fifo = m.fifo[1:]
			m.held = false
			if it.flag == gWait {
				select {
				case <-it.done:
				case <-time.After(30 * time.Second):
					x.timedOut("wait-stuck", "Wait() did not return within 30 s although its marker was applied")
					return
				}
			}
		}
		held, err := x.g.AwaitHeldOr(func(stopped, applied int) bool { return stopped > s0 })
		if err != nil {
			x.mismatch("harness", name+": "+err.Error())
			return
		}
		if held && x.g.Stopped() == s0 {
			m.held = true
			continue
		}
		break
	}
	if x.failed {
		return
	}
	// the applier has stopped; Clear drains the rest itself
	drained := len(m.fifo)
	for _, it := range m.fifo {
		switch it.flag {
		case gNew:
			cbs = append(cbs, gCB{lab.EvOnEvict, it.val}, gCB{lab.EvOnExit, it.val})
		case gWait:
			select {
			case <-it.done:
			case <-time.After(30 * time.Second):
				x.timedOut("clear-postcondition", "a goroutine blocked in Wait() before "+name+" was not released within 30 s")
				return
			}
		}
	}
	m.fifo = nil
	m.held = false
	m.enq -= drained // drained by Clear itself, never dequeued by the applier
	x.pendingWaits = nil
	for _, e := range m.store {
		cbs = append(cbs, gCB{lab.EvOnEvict, e.val}, gCB{lab.EvOnExit, e.val})
	}
	resident := len(m.store)
	m.store = map[int]gEntry{}
	m.policy = map[int]int64{}
	m.used = 0
	m.m = gMetrics{}
	select {
	case <-done:
	case <-time.After(30 * time.Second):
		x.timedOut("call-stuck", name+"() did not return within 30 s")
		return
	}
	x.tr("%s() [applied %d before the applier stopped, drained %d, resident %d]", name, appliedBeforeStop, drained, resident)
	x.expectCallbacks(n0, cbs, name+"()")
	x.c.R.DistinctKey("%s/applied%d/drained%d/resident%d", name, min(appliedBeforeStop, 3), min(drained, 3), min(resident, 3))
	x.c.R.Obs("gated_"+strings.ToLower(name), 1)
	if closeIt {
		m.closed = true
		x.postClose()
	} else {
		x.postClear()
	}
}

func (x *gRun) postClear() {
	s := x.l.C.Snapshot()
	class := "clear-postcondition"
	if rc := x.l.C.RemainingCost(); rc != s.MaxCost {
		x.mismatch(class, fmt.Sprintf("after Clear RemainingCost()=%d, MaxCost=%d", rc, s.MaxCost))
	}
	if len(s.Entries) != 0 || len(s.KeyCosts) != 0 || s.Used != 0 || len(s.Buckets) != 0 || s.SetBufLen != 0 {
		x.mismatch(class, fmt.Sprintf("after Clear: %d map entries, %d accounted keys, used=%d, %d expiry buckets, %d buffered items", len(s.Entries), len(s.KeyCosts), s.Used, len(s.Buckets), s.SetBufLen))
	}
	if n := len(x.cl.IterValues(-1)); n != 0 {
		x.mismatch(class, fmt.Sprintf("after Clear IterValues yields %d values", n))
	}
	if mt := x.l.C.Metrics(); mt != nil {
		tot := mt.Hits() + mt.Misses() + mt.KeysAdded() + mt.KeysUpdated() + mt.KeysEvicted() + mt.CostAdded() + mt.CostEvicted() + mt.SetsDropped() + mt.SetsRejected()
		if tot != 0 {
			x.mismatch(class, "after Clear the metrics are not reset: "+mt.String())
		}
	}
}

func (x *gRun) postClose() {
	class := "close-postcondition"
	v := x.cl.NextVal(0)
	if x.cl.Set(0, v, 1, 0) {
		x.mismatch(class, "Set returned true after Close")
	}
	if _, ok := x.cl.Get(0); ok {
		x.mismatch(class, "Get hit after Close")
	}
	if !x.timed(func() { x.cl.Del(0) }, "Del after Close") || !x.timed(func() { x.cl.Wait() }, "Wait after Close") ||
		!x.timed(func() { x.cl.Clear() }, "Clear after Close") || !x.timed(func() { x.cl.Close() }, "Close after Close") {
		return
	}
	if n := len(x.cl.IterValues(-1)); n != 0 {
		x.mismatch(class, fmt.Sprintf("IterValues yields %d values after Close", n))
	}
	// background goroutines of this cache must be gone (episodes run one at a time in this process)
	deadline := time.Now().Add(30 * time.Second)
	for {
		buf := make([]byte, 1<<20)
		n := runtime.Stack(buf, true)
		dump := string(buf[:n])
		cnt := strings.Count(dump, ").processItems(")
		if cnt == 0 {
			break
		}
		if time.Now().After(deadline) {
			x.timedOut("goroutine-leak", fmt.Sprintf("%d processItems goroutine(s) still alive 30 s after Close returned", cnt))
			break
		}
		time.Sleep(2 * time.Millisecond)
	}
}

// checkSnapshot compares the white-box state and the metrics with the model. Only when no helper call is in flight.
func (x *gRun) checkSnapshot() {
	m := x.m
	if m.closed || x.failed {
		return
	}
	s := x.l.C.Snapshot()
	x.c.R.Obs("gated_snapshots", 1)
	if s.SetBufLen != m.chanLen() {
		x.mismatch("snapshot-buffer", fmt.Sprintf("write buffer holds %d items, model says %d", s.SetBufLen, m.chanLen()))
		return
	}
	if len(s.KeyCosts) != len(m.policy) {
		x.mismatch("snapshot-policy", fmt.Sprintf("capacity accounting knows %d keys, model %d", len(s.KeyCosts), len(m.policy)))
		return
	}
	for k, c := range m.policy {
		if got, ok := s.KeyCosts[x.l.Hashes[k][0]]; !ok || got != c {
			x.mismatch("snapshot-policy", fmt.Sprintf("key k%d accounted with cost %d (present=%v), model says %d", k, got, ok, c))
			return
		}
	}
	if s.Used != m.used {
		x.mismatch("snapshot-used", fmt.Sprintf("used=%d, model %d", s.Used, m.used))
		return
	}
	if rc := x.l.C.RemainingCost(); rc != m.maxCost-m.used {
		x.mismatch("snapshot-remaining", fmt.Sprintf("RemainingCost()=%d, model %d", rc, m.maxCost-m.used))
		return
	}
	if len(s.Entries) != len(m.store) {
		x.mismatch("snapshot-store", fmt.Sprintf("map holds %d entries, model %d", len(s.Entries), len(m.store)))
		return
	}
	indexed := 0
	for _, b := range s.Buckets {
		indexed += len(b)
	}
	withTTL := 0
	for _, e := range s.Entries {
		k, ok := x.l.HashIdx[e.Key]
		me, has := m.store[k]
		if !ok || !has || me.val != e.Value {
			x.mismatch("snapshot-store", fmt.Sprintf("map entry (hash %#x value %#x) does not match the model (k%d -> %#x, present=%v)", e.Key, e.Value, k, me.val, has))
			return
		}
		if (me.ttl == 0) != e.Expiration.IsZero() {
			x.mismatch("snapshot-store", fmt.Sprintf("k%d: stored expiration %v for ttl %v", k, e.Expiration, me.ttl))
			return
		}
		if me.ttl != 0 {
			withTTL++
			if e.Expiration.Before(me.t0.Add(me.ttl)) || e.Expiration.After(me.t1.Add(me.ttl)) {
				x.mismatch("snapshot-store", fmt.Sprintf("k%d: stored expiration %v outside [%v,%v]", k, e.Expiration, me.t0.Add(me.ttl), me.t1.Add(me.ttl)))
				return
			}
			b := s.Buckets[ristretto.VerifStorageBucket(e.Expiration)]
			if _, ok := b[e.Key]; !ok {
				x.mismatch("snapshot-expiry", fmt.Sprintf("k%d has a TTL but is not indexed in its expiry bucket", k))
				return
			}
		}
	}
	if indexed != withTTL {
		x.mismatch("snapshot-expiry", fmt.Sprintf("expiry index holds %d keys but %d stored entries have a TTL (stale index entries)", indexed, withTTL))
		return
	}
	if mt := x.l.C.Metrics(); mt != nil {
		// only the laws the statement gives (not the individual counters)
		type laws struct{ HitsPlusMisses, KeysAddedMinusEvicted, CostAddedMinusEvicted, SetsDropped uint64 }
		got := laws{mt.Hits() + mt.Misses(), mt.KeysAdded() - mt.KeysEvicted(), mt.CostAdded() - mt.CostEvicted(), mt.SetsDropped()}
		want := laws{m.m.hits + m.m.misses, uint64(len(m.policy)), uint64(m.used), m.m.setsDropped}
		if got != want {
			x.mismatch("metrics-mismatch", fmt.Sprintf("metric laws %+v, model %+v (%s)", got, want, mt.String()))
			return
		}
		if kd := int64(mt.GetsKept() + mt.GetsDropped()); kd > m.getsTotal {
			x.mismatch("metrics-mismatch", fmt.Sprintf("GetsKept+GetsDropped=%d exceeds %d Gets", kd, m.getsTotal))
		}
		// the third law literally, through the public reading
		if d, want := mt.CostAdded()-mt.CostEvicted(), uint64(x.l.C.MaxCost()-x.l.C.RemainingCost()); d != want {
			x.mismatch("metrics-mismatch", fmt.Sprintf("CostAdded-CostEvicted=%d but MaxCost-RemainingCost()=%d", d, want))
		}
	}
}

func (x *gRun) exec(op gOp) {
	if op.Op == "set" && op.Cost > x.m.maxCost {
		if _, resident := x.m.store[op.Key]; resident {
			op.Cost = 1 // an overwrite with a cost above MaxCost would raise the accounted cost and force evictions
		}
	}
	if op.Op != "step" || x.m.held {
		// transition class: operation x state of the key (resident, pending new/update/tombstone) x buffer state
		pn, pu, pd := 0, 0, 0
		for _, it := range x.m.fifo {
			if it.key == op.Key {
				switch it.flag {
				case gNew:
					pn++
				case gUpdate:
					pu++
				case gDelete:
					pd++
				}
			}
		}
		_, res := x.m.store[op.Key]
		full := x.m.chanLen() >= x.m.B
		head := -1
		if x.m.held {
			head = x.m.fifo[0].flag
		}
		x.c.R.DistinctKey("T/%s/res%v/n%d/u%d/d%d/full%v/head%d/closed%v", op.Op, res, min(pn, 2), min(pu, 2), min(pd, 2), full, head, x.m.closed)
	}
	switch op.Op {
	case "set":
		x.doSet(op.Key, op.Cost, op.TTL)
	case "del":
		x.doDel(op.Key)
	case "get":
		x.doGet(op.Key)
	case "getttl":
		x.doGetTTL(op.Key)
	case "iter":
		x.doIter()
	case "wait":
		x.doWait(false)
	case "wait-async":
		x.doWait(true)
	case "step":
		for i := 0; i < max(1, op.N) && !x.failed; i++ {
			x.step()
		}
	case "sleep":
		time.Sleep(time.Duration(max(1, op.N)) * time.Millisecond)
		x.tr("sleep %d ms", max(1, op.N))
	case "clear":
		x.doClearOrClose(false)
	case "close":
		x.doClearOrClose(true)
	case "maxcost":
		// op.Cost < 0: back to the configured capacity; otherwise a capacity below the cost of any single item, so that
		// nothing is admitted (and nothing has to be evicted) while it lasts
		n := op.Cost
		if n < 0 {
			n = x.cs.Cfg.MaxCost
		}
		if !x.m.closed {
			x.cl.UpdateMaxCost(n)
			x.m.maxCost = n
			x.tr("UpdateMaxCost(%d)", n)
		}
	}
	x.opsDone++
	if !x.failed {
		x.checkSnapshot()
	}
}

// finish closes the cache (if still open) and releases everything.
func (x *gRun) finish() {
	if !x.m.closed && !x.failed {
		x.doClearOrClose(true)
	}
	if !x.m.closed {
		// failed episode: open the gate and close for real so nothing is left running
		x.g.Open()
		done := make(chan struct{})
		go func() { x.l.C.Close(); close(done) }()
		select {
		case <-done:
		case <-time.After(20 * time.Second):
		}
	}
	x.l.SetHook(nil)
	x.l.Forget()
}

var gatedHarnessProblems int

// runGatedCase executes one case; returns false if it failed.
func runGatedCase(c *Ctx, prop string, cs *gCase, ops []gOp) bool {
	if c.R.NumViolations() >= 5 {
		return false // enough witnesses; do not spend the budget on timeouts
	}
	if gatedHarnessProblems >= 3 {
		// the gate protocol no longer matches the code under test: stop instead of timing out case after case
		c.R.Inconc(1)
		return false
	}
	c.J.Case(cs)
	c.R.Eval(1)
	x, err := newGRun(c, prop, cs)
	if err != nil {
		c.R.Note("gated %s: %v", cs.Name, err)
		c.R.Inconc(1)
		return false
	}
	for _, op := range ops {
		if x.failed {
			break
		}
		x.exec(op)
	}
	x.finish()
	if !x.failed {
		c.R.Sample(3, map[string]any{"case": cs.Name, "ops": len(ops), "trace_tail": x.trace[max(0, len(x.trace)-8):]})
	}
	return !x.failed
}

// genGatedOps draws a random single-client sequence with explicit applier lag.
func genGatedOps(rng *lab.RNG, nk, n int, w map[string]int, costs []int64, ttls []time.Duration) []gOp {
	var names []string
	for k := range w {
		names = append(names, k)
	}
	sort.Strings(names)
	tot := 0
	for _, k := range names {
		tot += w[k]
	}
	var ops []gOp
	restoreAt := -1
	for i := 0; i < n; i++ {
		if i == restoreAt {
			ops = append(ops, gOp{Op: "maxcost", Cost: -1})
			restoreAt = -1
		}
		r := rng.Intn(tot)
		name := ""
		for _, k := range names {
			if r < w[k] {
				name = k
				break
			}
			r -= w[k]
		}
		op := gOp{Op: name, Key: rng.Intn(nk)}
		switch name {
		case "set":
			op.Cost = costs[rng.Intn(len(costs))]
			op.TTL = ttls[rng.Intn(len(ttls))]
		case "step":
			op.N = 1 + rng.Intn(3)
		case "sleep":
			op.N = 2 + rng.Intn(10)
		case "mcdip":
			if restoreAt >= 0 {
				continue
			}
			op = gOp{Op: "maxcost", Cost: 0}
			restoreAt = i + 1 + rng.Intn(6)
		}
		ops = append(ops, op)
	}
	if restoreAt >= 0 {
		ops = append(ops, gOp{Op: "maxcost", Cost: -1})
	}
	return ops
}
