package main

// C08 — concurrent use of the public API is free of data races, panics and
// deadlocks. Oracle: the Go race detector (vwork.race), per-call recover, a
// per-call watchdog with canary. The workload deliberately shares NO monitor
// state between client goroutines (no logical clock, no event log): atomics in
// a monitor would add happens-before edges and hide races from the detector.

import (
	"fmt"
	"runtime"
	"sync"
	"sync/atomic"
	"time"

	ristretto "github.com/dgraph-io/ristretto/v2"
	"github.com/dgraph-io/ristretto/v2/z"
	"verif/harness/lab"
)

func init() { registry["C08"] = runC08 }

type c08Case struct {
	Name        string `json:"name"`
	BufferItems int64  `json:"buffer_items"`
	NumCounters int64  `json:"num_counters"`
	MaxCost     int64  `json:"max_cost"`
	Metrics     bool   `json:"metrics"`
	Callbacks   bool   `json:"callbacks"`
	TTL         bool   `json:"ttl"`
	SetBuf      int    `json:"set_buf"`
	Goroutines  int    `json:"goroutines"`
	Ops         int    `json:"ops_per_goroutine"`
	NKeys       int    `json:"nkeys"`
	Delays      bool   `json:"delays"`
	KeyKind     string `json:"key_kind"`
	DelStorm    bool   `json:"del_storm,omitempty"` // mostly Del and SetWithTTL on TTL keys across several sweep ticks
	CostWave    bool   `json:"cost_wave,omitempty"` // one goroutine lowers MaxCost below the cost of single items, holds, restores
	Stream      uint64 `json:"stream"`
}

var c08Ops = []string{"Get", "Set", "SetWithTTL", "Del", "GetTTL", "IterValues", "Wait", "Clear", "UpdateMaxCost", "MaxCost", "RemainingCost", "Metrics"}

// localDelay decides from the caller's own clock reading only (no shared state).
func localDelay() {
	x := uint64(time.Now().UnixNano())
	x ^= x >> 7
	x *= 0x9E3779B97F4A7C15
	switch (x >> 40) % 16 {
	case 0:
		runtime.Gosched()
	case 1:
		end := time.Now().Add(time.Duration(1+(x>>20)%30) * time.Microsecond)
		for time.Now().Before(end) {
		}
	case 2:
		if (x>>10)%8 == 0 {
			time.Sleep(time.Duration(1+(x>>20)%300) * time.Microsecond)
		}
	}
}

var c08Mu sync.Mutex // serialises NewCache (setBufSize is a package variable)

func runC08(c *Ctx) {
	r := c.R
	r.Rule = "episodes = configuration (BufferItems, NumCounters>=2, MaxCost, metrics, callbacks, TTL, write-buffer size, goroutines 2..64, key type, delay injection at hook points) x free-running mix of all 12 listed call kinds on one open cache; oracle = race detector + per-call recover + per-call watchdog; distinct by (configuration class, call kind) actually executed; non-trivial when at least two goroutines ran"
	// 1-second expiry buckets (sweeps every 0.5 s): the background sweep works on due buckets DURING the episodes,
	// concurrently with Del / overwrite / Clear of the same TTL keys
	ristretto.VerifSetBucketSeconds(1)
	wd := lab.NewWatchdog(65, 60*time.Second, lab.HangExit(r, "C08", c.Out))
	defer wd.Stop()
	ristretto.VerifSetHook(func(owner any, point int, arg uint64) {
		if c08DelayOn.Load() {
			localDelay()
		}
	})
	ristretto.VerifSetSampledHook(func(owner any, key uint64, incHits int64, sampleKeys []uint64, sampleCosts []int64, minKey uint64, minHits int64, est func(uint64) int64) {
		if c08DelayOn.Load() {
			localDelay()
		}
	})
	n := c.N(64, 400)
	for i := 0; i < n; i++ {
		if i%c.NParts != c.Part {
			continue
		}
		rng := lab.NewRNG(c.Seed, 800000+uint64(i))
		cs := c08Case{
			BufferItems: []int64{1, 8, 64, 512}[i%4], NumCounters: []int64{2, 3, 100, 100000}[(i/4)%4], MaxCost: []int64{1, 100, 1000000}[(i/16)%3],
			Metrics: rng.Chance(0.5), Callbacks: rng.Chance(0.6), TTL: rng.Chance(0.5), SetBuf: lab.Pick(rng, []int{1, 16, 32768}),
			Goroutines: lab.Pick(rng, []int{2, 3, 4, 8, 16, 32, 64}), NKeys: lab.Pick(rng, []int{1, 4, 32, 1000}), Delays: rng.Chance(0.6),
			KeyKind: lab.Pick(rng, []string{"int", "string"}), Stream: uint64(i),
		}
		cs.Ops = c.N(60000, 60000) / cs.Goroutines
		if i%8 == 6 || c.Arg == "storm" {
			// many goroutines deleting and re-writing TTL keys while their buckets become due: Del / overwrite vs the sweep
			cs.DelStorm, cs.TTL, cs.Goroutines, cs.NKeys, cs.MaxCost, cs.SetBuf = true, true, lab.Pick(rng, []int{32, 48, 64}), 100000, 100000000, 32768
			cs.Ops = 1000
		}
		if i%8 == 3 {
			// UpdateMaxCost shrinking under admissions that are already past their size check: the applier is inside the
			// eviction loop (widened by delays at the decision hook) when the capacity drops below the newcomer's cost
			cs.CostWave, cs.MaxCost, cs.NKeys, cs.SetBuf, cs.Delays = true, lab.Pick(rng, []int64{300, 3000}), 1000, 32768, true
		}
		cs.Name = fmt.Sprintf("c08-bi%d-nc%d-mc%d-m%v-cb%v-ttl%v-sb%d-g%d", cs.BufferItems, cs.NumCounters, cs.MaxCost, cs.Metrics, cs.Callbacks, cs.TTL, cs.SetBuf, cs.Goroutines)
		c.J.Case(cs)
		if cs.KeyKind == "int" {
			c08Episode(c, wd, cs, func(i int) int { return i })
		} else {
			c08Episode(c, wd, cs, func(i int) string { return fmt.Sprintf("k%d", i) })
		}
	}
	r.Obs("max_canary_late_ms", wd.MaxLateMs())
}

var c08DelayOn atomic.Bool // written between episodes, read by hook callers (a load adds no edge between clients)

func c08Episode[K ristretto.Key](c *Ctx, wd *lab.Watchdog, cs c08Case, mk func(int) K) {
	r := c.R
	r.Eval(1)
	conf := &ristretto.Config[K, uint64]{NumCounters: cs.NumCounters, MaxCost: cs.MaxCost, BufferItems: cs.BufferItems, Metrics: cs.Metrics, TtlTickerDurationInSec: 1}
	if cs.Callbacks {
		conf.OnEvict = func(it *ristretto.Item[uint64]) { localDelay() }
		conf.OnReject = func(it *ristretto.Item[uint64]) { localDelay() }
		conf.OnExit = func(v uint64) { localDelay() }
		conf.Cost = func(v uint64) int64 { return int64(v%7) + 1 }
	}
	c08Mu.Lock()
	old := ristretto.VerifSetBufSize(cs.SetBuf)
	cache, err := ristretto.NewCache(conf)
	ristretto.VerifSetBufSize(old)
	c08Mu.Unlock()
	if err != nil {
		r.Note("%s: NewCache: %v", cs.Name, err)
		r.Inconc(1)
		return
	}
	c08DelayOn.Store(cs.Delays)
	var wg sync.WaitGroup
	type stat struct {
		calls  [12]int64
		panics []string
	}
	stats := make([]stat, cs.Goroutines)
	for g := 0; g < cs.Goroutines; g++ {
		wg.Add(1)
		go func(g int) {
			defer wg.Done()
			rng := lab.NewRNG(c.Seed, cs.Stream*1000+uint64(g)+5)
			st := &stats[g]
			type stormKey struct {
				key    int
				expSec int64
			}
			var lifeSnap *z.HistogramData
			ring := make([]stormKey, 4096)
			ringN := 0
			stormEnd := time.Now().Add(3500 * time.Millisecond) // a del-storm spans several sweeps of due buckets
			for i := 0; i < cs.Ops || (cs.DelStorm && time.Now().Before(stormEnd)); i++ {
				op := rng.Intn(100)
				if cs.DelStorm {
					// remap: 55% Del, 30% SetWithTTL, 10% Get, 5% the rest
					switch x := rng.Intn(100); {
					case x < 55:
						op = 60 // Del
					case x < 85:
						op = 52 // SetWithTTL
					case x < 95:
						op = 0 // Get
					}
				}
				k := mk(rng.Intn(cs.NKeys))
				var kind int
				call := func(f func()) {
					wd.Enter(g, c08Ops[kind]+" in "+cs.Name)
					defer wd.Leave(g)
					defer func() {
						if p := recover(); p != nil {
							buf := make([]byte, 8192)
							n := runtime.Stack(buf, false)
							if len(st.panics) < 3 {
								st.panics = append(st.panics, fmt.Sprintf("%s panicked: %v\n%s", c08Ops[kind], p, buf[:n]))
							}
						}
					}()
					f()
				}
				v := uint64(g)<<32 | uint64(i) + 1
				switch {
				case op < 30:
					kind = 0
					call(func() { cache.Get(k) })
				case op < 50:
					kind = 1
					call(func() { cache.Set(k, v, int64(rng.Intn(4))) })
				case op < 58:
					kind = 2
					ttl := time.Duration(0)
					if cs.TTL {
						ttl = time.Duration(rng.Intn(30)) * time.Millisecond
						if rng.Chance(0.5) {
							ttl = time.Duration(200+rng.Intn(1300)) * time.Millisecond
						}
					}
					if cs.DelStorm && ttl > 0 {
						// remember (own) TTL keys with the wall-clock second in which they expire
						ki := rng.Intn(cs.NKeys)
						k = mk(ki)
						ring[ringN%len(ring)] = stormKey{ki, time.Now().Add(ttl).Unix()}
						ringN++
					}
					call(func() { cache.SetWithTTL(k, v, 1, ttl) })
				case op < 68:
					kind = 3
					if cs.DelStorm && ringN > 0 {
						// prefer keys whose expiry bucket is due right now: the sweep is about to take (or has just
						// taken) their bucket
						now := time.Now().Unix()
						for tries := 0; tries < 8; tries++ {
							e := ring[rng.Intn(min(ringN, len(ring)))]
							if e.expSec < now && e.expSec >= now-2 {
								k = mk(e.key)
								break
							}
						}
					}
					call(func() { cache.Del(k) })
				case op < 74:
					kind = 4
					call(func() { cache.GetTTL(k) })
				case op < 78:
					kind = 5
					stop := rng.Intn(5)
					call(func() {
						n := 0
						cache.IterValues(func(uint64) bool { n++; return n > stop })
					})
				case op < 82:
					kind = 6
					call(func() { cache.Wait() })
				case op < 84:
					kind = 7
					call(func() { cache.Clear() })
				case op < 88:
					kind = 8
					switch {
					case cs.CostWave && g == 0:
						lo := int64(1 + rng.Intn(60))
						call(func() { cache.UpdateMaxCost(lo) })
						for end := time.Now().Add(time.Duration(50+rng.Intn(1500)) * time.Microsecond); time.Now().Before(end); {
							runtime.Gosched()
						}
						call(func() { cache.UpdateMaxCost(cs.MaxCost) })
					case cs.CostWave:
						kind = 9
						call(func() { cache.MaxCost() })
					case rng.Chance(0.2):
						// lowering is as legal as raising
						call(func() { cache.UpdateMaxCost(1 + int64(rng.Intn(int(cs.MaxCost)))) })
					default:
						call(func() { cache.UpdateMaxCost(cs.MaxCost + int64(rng.Intn(10))) })
					}
				case op < 92:
					kind = 9
					call(func() { cache.MaxCost() })
				case op < 96:
					kind = 10
					call(func() { cache.RemainingCost() })
				default:
					kind = 11
					call(func() {
						m := cache.Metrics
						_ = m.Hits() + m.Misses() + m.KeysAdded() + m.KeysUpdated() + m.KeysEvicted() + m.CostAdded() + m.CostEvicted() +
							m.SetsDropped() + m.SetsRejected() + m.GetsDropped() + m.GetsKept()
						_ = m.Ratio()
						_ = m.String()
						// a snapshot handed out earlier is the caller's own copy: reading it later must not touch anything the
						// cache still updates
						if lifeSnap != nil {
							_ = lifeSnap.String()
							_ = lifeSnap.Percentile(0.5) + lifeSnap.Mean()
							for _, n := range lifeSnap.CountPerBucket {
								_ = n
							}
						}
						lifeSnap = m.LifeExpectancySeconds()
					})
				}
				st.calls[kind]++
			}
		}(g)
	}
	wg.Wait()
	wd.Enter(64, "Close after join in "+cs.Name)
	cache.Close()
	wd.Leave(64)
	var tot [12]int64
	for g := range stats {
		for k, n := range stats[g].calls {
			tot[k] += n
		}
		for _, p := range stats[g].panics {
			r.Violate("C08/panic", fmt.Sprintf("[%s] %s", cs.Name, p), cs)
		}
	}
	cls := fmt.Sprintf("bi%d/nc%d/mc%d/m%v/cb%v/ttl%v/sb%d", cs.BufferItems, cs.NumCounters, cs.MaxCost, cs.Metrics, cs.Callbacks, cs.TTL, cs.SetBuf)
	for k, n := range tot {
		r.Obs("calls_"+c08Ops[k], n)
		if n > 0 && cs.Goroutines >= 2 {
			r.DistinctKey("%s/%s", cls, c08Ops[k])
		}
	}
	r.Sample(3, cs)
}
