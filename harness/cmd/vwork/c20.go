package main

// C20 — simd.Search agrees with the reference search, independent of memory
// behind the slice. Monitors: differential vs simd.Naive with adversarial
// tails, and a guard-page sanitizer (slice ends at a PROT_NONE page,
// SetPanicOnFault) that turns any read past len(xs) into a recorded fault.

import (
	"fmt"
	"runtime/debug"
	"syscall"
	"unsafe"

	"github.com/dgraph-io/ristretto/v2/z/simd"
)

func init() { registry["C20"] = runC20 }

type c20Case struct {
	Len   int    `json:"len"`
	Pos   int    `json:"first_match"` // index of first key >= k, len/2 if none
	K     uint64 `json:"k"`
	KCls  string `json:"k_class"`
	Tail  string `json:"tail"`
	Off   int    `json:"base_offset_words"` // xs starts this many 8-byte words after a 64-byte boundary
	Want  int16  `json:"want"`
	Got   int16  `json:"got,omitempty"`
	Fault string `json:"fault,omitempty"`
}

const c20TailWords = 16

// guardRegion maps n data pages followed by one inaccessible page.
type guardRegion struct {
	mem  []byte
	data []byte // the accessible part
}

func newGuardRegion(pages int) *guardRegion {
	ps := syscall.Getpagesize()
	mem, err := syscall.Mmap(-1, 0, (pages+1)*ps, syscall.PROT_READ|syscall.PROT_WRITE, syscall.MAP_ANON|syscall.MAP_PRIVATE)
	if err != nil {
		panic(err)
	}
	if err := syscall.Mprotect(mem[pages*ps:], syscall.PROT_NONE); err != nil {
		panic(err)
	}
	return &guardRegion{mem: mem, data: mem[:pages*ps]}
}

// sliceAtEnd returns a []uint64 of n words ending exactly at the guard page.
func (g *guardRegion) sliceAtEnd(n int) []uint64 {
	if n == 0 {
		// zero-length slice whose base points at the guard page itself
		return unsafe.Slice((*uint64)(unsafe.Pointer(&g.data[len(g.data)-8])), 1)[1:1]
	}
	off := len(g.data) - 8*n
	return unsafe.Slice((*uint64)(unsafe.Pointer(&g.data[off])), n)
}

func searchGuarded(xs []uint64, k uint64) (res int16, fault string) {
	old := debug.SetPanicOnFault(true)
	defer debug.SetPanicOnFault(old)
	defer func() {
		if r := recover(); r != nil {
			fault = fmt.Sprint(r)
		}
	}()
	return simd.Search(xs, k), ""
}

func runC20(c *Ctx) {
	r := c.R
	r.Rule = "complete enumeration of (even length 0..maxLen, position of first key>=k incl. none, k class in {exact,between,zero,max}, tail pattern in {ones,zeros,ge_k_at_j (j<8),copy,guard_page}) x base alignment of xs (all 8 word offsets within a 64-byte line for lengths <= 72, a quarter of them beyond); a case is non-trivial when the slice is non-empty; distinct by (len,pos,kclass,tail). Random-content cases are added on top."
	maxLen := 2*255 + 8
	g := newGuardRegion(2)
	// the embedding array starts on a page boundary, so the base alignment of xs is chosen by the word offset
	emem := newGuardRegion(3)
	embed := unsafe.Slice((*uint64)(unsafe.Pointer(&emem.data[0])), maxLen+c20TailWords+8)
	rng := c.rng(20)

	type tailPat struct {
		name string
		fill func(tail []uint64, k uint64, keys []uint64)
	}
	tails := []tailPat{
		{"ones", func(t []uint64, k uint64, _ []uint64) {
			for i := range t {
				t[i] = ^uint64(0)
			}
		}},
		{"zeros", func(t []uint64, k uint64, _ []uint64) {
			for i := range t {
				t[i] = 0
			}
		}},
		{"copy", func(t []uint64, k uint64, keys []uint64) {
			for i := range t {
				if len(keys) > 0 {
					t[i] = keys[i%len(keys)]
				} else {
					t[i] = k
				}
			}
		}},
	}
	for j := 0; j < 8; j++ {
		j := j
		tails = append(tails, tailPat{fmt.Sprintf("ge_k_at_%d", j), func(t []uint64, k uint64, _ []uint64) {
			for i := range t {
				t[i] = 0
			}
			t[j] = k
			if k == 0 {
				t[j] = 1
			}
		}})
	}

	check := func(cs c20Case, xs []uint64, guarded bool) {
		r.Eval(1)
		if cs.Len > 0 {
			r.DistinctKey("%d/%d/%s/%s/%d", cs.Len, cs.Pos, cs.KCls, cs.Tail, cs.Off)
		}
		var got int16
		var fault string
		if guarded {
			got, fault = searchGuarded(xs, cs.K)
		} else {
			got = simd.Search(xs, cs.K)
		}
		if fault != "" {
			cs.Fault = fault
			r.Violate(fmt.Sprintf("C20/oob-read/len%%8=%d", cs.Len%8), fmt.Sprintf("Search read past len(xs)=%d and faulted on the guard page: %s", cs.Len, fault), cs)
			r.Obs("guard_faults", 1)
			return
		}
		if got != cs.Want {
			cs.Got = got
			r.Violate(fmt.Sprintf("C20/wrong-index/len%%8=%d/tail=%s", cs.Len%8, tailClass(cs.Tail)), fmt.Sprintf("Search=%d Naive=%d len=%d k=%d tail=%s", got, cs.Want, cs.Len, cs.K, cs.Tail), cs)
			return
		}
		if cs.Len >= 10 && cs.Len%8 != 0 {
			r.Sample(4, cs)
		}
	}

	// nil slice
	{
		cs := c20Case{Len: 0, Pos: 0, K: 5, KCls: "nil", Tail: "nil", Want: 0}
		c.J.Case(cs)
		r.Eval(1)
		got, fault := searchGuarded(nil, 5)
		if fault != "" {
			cs.Fault = fault
			r.Violate("C20/nil-slice-fault", "Search(nil,k) faulted: "+fault, cs)
		} else if got != 0 {
			cs.Got = got
			r.Violate("C20/wrong-index/nil", fmt.Sprintf("Search(nil,5)=%d", got), cs)
		}
	}

	step := 1
	for L := 0; L <= maxLen; L += 2 {
		n := L / 2
		keys := make([]uint64, n)
		for i := range keys {
			keys[i] = uint64(10 * (i + 1))
		}
		// positions: all for the quick tier up to 64 keys, then a stride that still hits every residue mod 4
		positions := []int{}
		for p := 0; p <= n; p += step {
			positions = append(positions, p)
		}
		for _, p := range positions {
			c.J.Case(map[string]int{"len": L, "first_match": p})
			type kc struct {
				k   uint64
				cls string
			}
			var ks []kc
			if p < n {
				ks = append(ks, kc{keys[p], "exact"}, kc{keys[p] - 1, "between"})
				if p == 0 {
					ks = append(ks, kc{0, "zero"}, kc{1, "one"})
				}
			} else {
				last := uint64(0)
				if n > 0 {
					last = keys[n-1]
				}
				ks = append(ks, kc{last + 1, "above"}, kc{^uint64(0), "max"})
			}
			for _, kk := range ks {
				// embedded in a larger array with adversarial tails
				for ti, tp := range tails {
					for off := 0; off < 8; off++ {
						if off > 0 && (L > 72 && (L/2+p+ti+off)%4 != 0) {
							continue // long slices: a quarter of the (offset) combinations, still every offset for every length
						}
						xs := embed[off : off+L : off+L]
						for i := 0; i < n; i++ {
							xs[2*i] = keys[i]
							xs[2*i+1] = ^uint64(0) - uint64(i) // values must be ignored
						}
						tp.fill(embed[off+L:off+L+c20TailWords], kk.k, keys)
						want := simd.Naive(xs, kk.k)
						if int(want) != p {
							panic(fmt.Sprintf("harness: Naive=%d expected position %d", want, p))
						}
						check(c20Case{Len: L, Pos: p, K: kk.k, KCls: kk.cls, Tail: tp.name, Off: off, Want: want}, xs, false)
					}
				}
				// at the guard page
				xs := g.sliceAtEnd(L)
				for i := 0; i < n; i++ {
					xs[2*i] = keys[i]
					xs[2*i+1] = uint64(i)
				}
				want := int16(p)
				check(c20Case{Len: L, Pos: p, K: kk.k, KCls: kk.cls, Tail: "guard_page", Want: want}, xs, true)
			}
		}
		c.J.Rewind()
	}
	r.Exhaustive = append(r.Exhaustive, fmt.Sprintf("(len,pos,kclass,tail) for even len 0..%d", maxLen))

	// random contents: ascending keys with duplicates and large gaps, extreme values
	nrand := c.N(20000, 400000)
	for it := 0; it < nrand; it++ {
		L := 2 * rng.Intn(maxLen/2+1)
		n := L / 2
		xs := g.sliceAtEnd(L)
		cur := uint64(rng.Intn(3))
		for i := 0; i < n; i++ {
			switch rng.Intn(4) {
			case 0: // duplicate
			case 1:
				cur += 1
			case 2:
				cur += uint64(rng.Intn(1000))
			case 3:
				if cur < 1<<63 {
					cur += rng.Uint64() >> uint(1+rng.Intn(40))
				}
			}
			xs[2*i] = cur
			xs[2*i+1] = rng.Uint64()
		}
		var k uint64
		switch rng.Intn(5) {
		case 0:
			k = rng.Uint64()
		case 1:
			if n > 0 {
				k = xs[2*rng.Intn(n)]
			}
		case 2:
			if n > 0 {
				k = xs[2*rng.Intn(n)] + 1
			}
		case 3:
			k = cur + 1
		case 4:
			k = uint64(rng.Intn(4))
		}
		want := simd.Naive(xs, k)
		check(c20Case{Len: L, Pos: int(want), K: k, KCls: "random", Tail: "guard_page", Want: want}, xs, true)
		if it%4096 == 0 {
			c.J.Rewind()
		}
	}
}

func tailClass(t string) string {
	if len(t) > 4 && t[:4] == "ge_k" {
		return "ge_k"
	}
	return t
}
