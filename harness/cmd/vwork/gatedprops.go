package main

import (
	"fmt"
	"time"

	ristretto "github.com/dgraph-io/ristretto/v2"
	"verif/harness/lab"
)

func init() {
	registry["GATED"] = runGatedRandom
	registry["C05X"] = runC05Exhaustive
}

var gatedTTLs = []time.Duration{0, 0, 0, time.Hour, 2 * time.Hour, -time.Second, 250 * 365 * 24 * time.Hour}

// runGatedRandom: random single-client sequences with explicit applier lag; -arg names the property whose mismatch classes are reported.
func runGatedRandom(c *Ctx) {
	prop := c.Arg
	c.R.Rule = "gated sequential episodes: random sequences of Set/SetWithTTL/Del/Get/GetTTL/IterValues/Wait/Clear/Close interleaved with 'apply n buffered items' steps (the applier is single-stepped through a hook), total cost within MaxCost; every result, callback, white-box snapshot and metric law is compared with a reference model (map + explicit FIFO of pending writes); distinct by (operation, outcome class, number of pending writes, ...); non-trivial when at least one write is pending or resident"
	n := c.N(2000, 20000)
	for i := 0; i < n; i++ {
		if i%c.NParts != c.Part {
			continue
		}
		rng := lab.NewRNG(c.Seed, 600000+uint64(i))
		nk := 3 + rng.Intn(6)
		cfg := lab.CacheCfg{NumCounters: 100, BufferItems: 64, KeyKind: lab.Pick(rng, []string{"uint64", "string", "int"}), NKeys: nk,
			SetBuf: []int{0, 0, 4, 1, 2}[i%5], Metrics: prop == "C17" || i%2 == 0, IgnoreInternalCost: i%3 == 0, KeyZero: i%4 == 3}
		costs := []int64{1, 2, 3, 5}
		if i%4 == 1 {
			cfg.CostFn = "keycost"
			costs = append(costs, 0, 0)
		}
		cfg.MaxCost = int64(nk) * (13 + ristretto.VerifItemSize()) * 2
		if i%4 == 3 {
			// tight capacity: everything still always fits (each key at its largest possible cost), but there is no
			// slack that could hide capacity leaked by wrong cost bookkeeping
			per := int64(5)
			if cfg.CostFn == "keycost" {
				per = 13
			}
			if !cfg.IgnoreInternalCost {
				per += ristretto.VerifItemSize()
			}
			cfg.MaxCost = int64(nk) * per
		}
		if i%6 == 5 {
			costs = append(costs, cfg.MaxCost+1) // larger than the whole cache: rejected
		}
		w := map[string]int{"set": 30, "get": 24, "del": 8, "getttl": 5, "iter": 3, "wait": 5, "step": 20, "wait-async": 1, "clear": 1}
		switch prop {
		case "C15":
			w["clear"], w["wait-async"], w["close"] = 6, 5, 1
		case "C05":
			w["del"] = 16
		}
		if i%4 == 1 {
			// the capacity drops below the cost of any single item for a few operations (incl. buffered writes being
			// applied) and comes back: new items are turned away meanwhile, everything else must work as before
			w["mcdip"] = 3
		}
		if i%5 == 3 {
			cfg.ShouldUpdate = "parity"
		}
		ttls := gatedTTLs
		if i%4 == 2 {
			// no-sweep mode: the ticker is set to hours, so entries whose short TTL has elapsed stay in the map
			// (invisible to readers) until they are overwritten, deleted, cleared or the cache is closed
			cfg.TTLTick = 7200
			ttls = []time.Duration{0, time.Hour, 3 * time.Millisecond, 8 * time.Millisecond, 8 * time.Millisecond, -time.Second}
			w["sleep"] = 6
		}
		nops := lab.Pick(rng, []int{30, 60, 120, 200})
		cs := &gCase{Name: fmt.Sprintf("gated-%s-%d-buf%d-nk%d", prop, i, cfg.SetBuf, nk), Cfg: cfg, Stream: uint64(i), NOps: nops}
		ops := genGatedOps(rng, nk, nops, w, costs, ttls)
		runGatedCase(c, prop, cs, ops)
		if i%64 == 0 {
			c.J.Rewind()
		}
	}
}

// runC05Exhaustive enumerates every write prefix of length <= 4 over {Set, SetWithTTL, apply-one, Get} on one
// key, followed by Del, every suffix of length <= 2 over {apply-one, Get}, then Wait and Gets; two buffer sizes.
func runC05Exhaustive(c *Ctx) {
	c.R.Rule = "exhaustive enumeration: prefix in {Set, SetWithTTL(1h), apply one buffered item, Get}^(<=4) on key k, then Del(k), then suffix in {apply one, Get}^(<=2), then Wait, Get, Get, Set, Wait, Get; write-buffer sizes {default, 1}; distinct = each enumerated sequence; non-trivial when the prefix contains a write"
	alpha := []gOp{{Op: "set", Cost: 1}, {Op: "set", Cost: 1, TTL: time.Hour}, {Op: "step", N: 1}, {Op: "get"}}
	beta := []gOp{{Op: "step", N: 1}, {Op: "get"}}
	var prefixes [][]gOp
	var rec func(cur []gOp, depth int)
	rec = func(cur []gOp, depth int) {
		prefixes = append(prefixes, append([]gOp(nil), cur...))
		if depth == 4 {
			return
		}
		for _, a := range alpha {
			rec(append(cur, a), depth+1)
		}
	}
	rec(nil, 0)
	var suffixes [][]gOp
	suffixes = append(suffixes, nil)
	for _, a := range beta {
		suffixes = append(suffixes, []gOp{a})
		for _, b := range beta {
			suffixes = append(suffixes, []gOp{a, b})
		}
	}
	idx := 0
	for _, buf := range []int{0, 1} {
		for _, p := range prefixes {
			for _, s := range suffixes {
				idx++
				if idx%c.NParts != c.Part {
					continue
				}
				var ops []gOp
				ops = append(ops, p...)
				ops = append(ops, gOp{Op: "del"})
				ops = append(ops, s...)
				ops = append(ops, gOp{Op: "wait"}, gOp{Op: "get"}, gOp{Op: "get"}, gOp{Op: "set", Cost: 1}, gOp{Op: "wait"}, gOp{Op: "get"})
				cfg := lab.CacheCfg{NumCounters: 100, MaxCost: 1000, BufferItems: 64, KeyKind: "uint64", NKeys: 2, SetBuf: buf, IgnoreInternalCost: true}
				name := fmt.Sprintf("c05x-buf%d-", buf)
				for _, o := range ops {
					name += o.String()[:1]
					if o.Op == "set" && o.TTL != 0 {
						name += "t"
					}
				}
				cs := &gCase{Name: name, Cfg: cfg, Ops: ops}
				runGatedCase(c, "C05", cs, ops)
				hasWrite := false
				for _, o := range p {
					if o.Op == "set" {
						hasWrite = true
					}
				}
				if hasWrite {
					c.R.DistinctKey("%s", name)
				}
				if idx%256 == 0 {
					c.J.Rewind()
				}
			}
		}
	}
	c.R.Exhaustive = append(c.R.Exhaustive, "C05: prefixes {Set,SetWithTTL,apply-one,Get}^<=4 x Del x suffixes {apply-one,Get}^<=2 x buffer sizes {default,1}")
}
