package main

// C11 — z.Buffer returns what was written, in order, and sorts correctly.
// Differential reference-model monitor: a []byte (raw mode) or [][]byte
// (slice mode) compared with the buffer after every operation, over the four
// buffer kinds and across growth / the automatic calloc->mmap switch.

import (
	"bytes"
	"fmt"
	"os"
	"path/filepath"

	"github.com/dgraph-io/ristretto/v2/z"
	"verif/harness/lab"
)

func init() { registry["C11"] = runC11 }

type c11Case struct {
	Kind     string   `json:"kind"`
	Mode     string   `json:"mode"`
	Cap      int      `json:"capacity"`
	AutoMmap int      `json:"auto_mmap_threshold,omitempty"`
	MaxSize  int      `json:"max_size,omitempty"`
	Ops      int      `json:"ops"`
	Count    int      `json:"slice_count_target,omitempty"`
	Less     string   `json:"less,omitempty"`
	Stream   uint64   `json:"stream"`
	Tail     []string `json:"trace_tail,omitempty"`
}

var c11Less = map[string]func(a, b []byte) bool{
	"bytewise": func(a, b []byte) bool { return bytes.Compare(a, b) < 0 },
	"reverse":  func(a, b []byte) bool { return bytes.Compare(a, b) > 0 },
	"length":   func(a, b []byte) bool { return len(a) < len(b) },
	"lastbyte": func(a, b []byte) bool {
		la, lb := -1, -1
		if len(a) > 0 {
			la = int(a[len(a)-1])
		}
		if len(b) > 0 {
			lb = int(b[len(b)-1])
		}
		return la < lb
	},
	"never": func(a, b []byte) bool { return false },
}
var c11LessNames = []string{"bytewise", "reverse", "length", "lastbyte", "never"}

func runC11(c *Ctx) {
	r := c.R
	r.Rule = "generated sequences per (buffer kind in {calloc, mmap tmp, calloc+auto-mmap, persistent}, mode in {raw, slices}, initial capacity, max size, comparison function, slice count around 1024-chunking); the buffer is compared with a reference after every operation; distinct by (kind, mode, op, size class, growth/mmap-switch happened, comparator, slice-count class); non-trivial when the buffer is non-empty"
	z.SetTmpDir(c.TmpDir)
	kinds := []string{"calloc", "mmap", "autommap", "persistent"}
	caps := []int{0, 1, 63, 64, 65, 4096}
	counts := []int{0, 1, 2, 1023, 1024, 1025, 2047, 2048, 2049, 5000}
	if c.Part == 0 && c.Arg != "asan" { // (a 1 GiB region under the address sanitizer costs its shadow memory: ptr build only)
		for _, kind := range []string{"mmap", "calloc"} {
			for _, off := range []bool{false, true} {
				c11Huge(c, kind, off)
			}
		}
	}
	n := c.N(2400, 40000)
	for i := 0; i < n; i++ {
		if i%c.NParts != c.Part {
			continue
		}
		stream := uint64(i)
		rng := lab.NewRNG(c.Seed, 1100000+stream)
		cs := c11Case{Kind: kinds[i%4], Cap: caps[(i/4)%len(caps)], Stream: stream}
		if (i/24)%2 == 0 {
			cs.Mode = "raw"
		} else {
			cs.Mode = "slices"
		}
		cs.Ops = lab.Pick(rng, []int{10, 60, 300})
		if cs.Kind == "autommap" {
			cs.AutoMmap = lab.Pick(rng, []int{128, 1 << 10, 1 << 12, 1 << 16})
		}
		if rng.Chance(0.25) {
			cs.MaxSize = lab.Pick(rng, []int{64, 100, 1000, 5000, 1 << 16})
		}
		if cs.Mode == "slices" {
			cs.Less = c11LessNames[rng.Intn(len(c11LessNames))]
			if rng.Chance(0.5) {
				cs.Count = counts[rng.Intn(len(counts))]
			}
		}
		c.J.Case(cs)
		c11One(c, rng, cs)
		if i%50 == 0 {
			c.J.Rewind()
		}
	}
}

func c11Fill(rng *lab.RNG, p []byte) {
	x := rng.Uint64() | 1
	for i := range p {
		x ^= x << 13
		x ^= x >> 7
		x ^= x << 17
		p[i] = byte(x)
	}
}

func c11Size(rng *lab.RNG, capa int) int {
	switch rng.Intn(12) {
	case 0:
		return 0
	case 1:
		return 1
	case 2:
		return 7
	case 3:
		return 8
	case 4:
		return 9
	case 5:
		return max(0, capa-8)
	case 6:
		return capa
	case 7:
		return 2*capa + 1
	case 8:
		return rng.Intn(70000) // heavy tail
	default:
		return rng.Intn(64)
	}
}

func c11One(c *Ctx, rng *lab.RNG, cs c11Case) {
	r := c.R
	r.Eval(1)
	var trace []string
	tr := func(f string, a ...any) {
		trace = append(trace, fmt.Sprintf(f, a...))
		if len(trace) > 40 {
			trace = append(trace[:0], trace[20:]...)
		}
	}
	failed := false
	fail := func(sig, d string) {
		if failed {
			return
		}
		failed = true
		cs.Tail = append([]string(nil), trace[max(0, len(trace)-20):]...)
		r.Violate("C11/"+sig, fmt.Sprintf("%s/%s cap=%d autommap=%d max=%d: %s", cs.Kind, cs.Mode, cs.Cap, cs.AutoMmap, cs.MaxSize, d), cs)
	}
	var b *z.Buffer
	var path string
	var err error
	p := lab.Try(func() {
		switch cs.Kind {
		case "calloc":
			b = z.NewBuffer(cs.Cap, "verif")
		case "autommap":
			b = z.NewBuffer(cs.Cap, "verif").WithAutoMmap(cs.AutoMmap, c.TmpDir)
		case "mmap":
			b, err = z.NewBufferTmp(c.TmpDir, cs.Cap)
		case "persistent":
			path = filepath.Join(c.TmpDir, fmt.Sprintf("buf-%d.bin", cs.Stream))
			os.Remove(path)
			b, err = z.NewBufferPersistent(path, cs.Cap)
		}
		if err == nil && cs.MaxSize > 0 {
			b = b.WithMaxSize(cs.MaxSize)
		}
	})
	if p != nil {
		fail("panic-new/"+p.Short(), p.Msg)
		return
	}
	if err != nil {
		fail("new-error", err.Error())
		return
	}
	defer func() {
		lab.Try(func() { b.Release() })
		if path != "" {
			os.Remove(path)
		}
	}()
	capa := max(cs.Cap, 64)
	grew := false

	// fits reports whether n more bytes are within the limit (the buffer's own rule: offset+n <= max)
	fits := func(n int) bool { return cs.MaxSize == 0 || b.LenWithPadding()+n <= cs.MaxSize }
	sizeClass := func(n int) string {
		switch {
		case n == 0:
			return "0"
		case n < 8:
			return "<8"
		case n == 8:
			return "8"
		case n < capa:
			return "<cap"
		case n == capa:
			return "cap"
		default:
			return ">cap"
		}
	}

	if cs.Mode == "raw" {
		var ref []byte
		check := func(where string) bool {
			got := b.Bytes()
			if b.LenNoPadding() != len(ref) || len(got) != len(ref) {
				fail("raw-length", fmt.Sprintf("%s: LenNoPadding=%d len(Bytes)=%d reference %d", where, b.LenNoPadding(), len(got), len(ref)))
				return false
			}
			if !bytes.Equal(got, ref) {
				i := 0
				for i < len(ref) && got[i] == ref[i] {
					i++
				}
				fail("raw-content", fmt.Sprintf("%s: Bytes() differs from what was written at offset %d of %d", where, i, len(ref)))
				return false
			}
			if b.IsEmpty() != (len(ref) == 0) {
				fail("raw-isempty", fmt.Sprintf("%s: IsEmpty=%v with %d bytes written", where, b.IsEmpty(), len(ref)))
				return false
			}
			if cs.MaxSize > 0 && b.LenWithPadding() > cs.MaxSize {
				fail("maxsize-exceeded", fmt.Sprintf("%s: LenWithPadding=%d > max %d", where, b.LenWithPadding(), cs.MaxSize))
				return false
			}
			return true
		}
		for i := 0; i < cs.Ops && !failed; i++ {
			n := c11Size(rng, capa)
			if cs.MaxSize > 0 && rng.Chance(0.5) {
				n = rng.Intn(cs.MaxSize/4 + 2)
			}
			data := make([]byte, n)
			c11Fill(rng, data)
			willFit := fits(n)
			op := rng.Intn(100)
			var opname string
			pp := lab.Try(func() {
				switch {
				case op < 40:
					opname = "Write"
					tr("Write(%d bytes)", n)
					w, _ := b.Write(data)
					if w != n {
						fail("write-count", fmt.Sprintf("Write returned %d for %d bytes", w, n))
					}
				case op < 65:
					opname = "Allocate"
					tr("Allocate(%d)", n)
					s := b.Allocate(n)
					if len(s) != n {
						fail("allocate-length", fmt.Sprintf("Allocate(%d) returned %d bytes", n, len(s)))
						return
					}
					copy(s, data)
				case op < 90:
					opname = "AllocateOffset"
					tr("AllocateOffset(%d)", n)
					off := b.AllocateOffset(n)
					if want := len(ref) + b.StartOffset(); off != want {
						fail("allocateoffset-value", fmt.Sprintf("AllocateOffset(%d)=%d, expected %d", n, off, want))
						return
					}
					copy(b.Data(off)[:n], data)
				default:
					opname = "Reset"
					tr("Reset()")
					b.Reset()
					ref = ref[:0]
					data = nil
					willFit = true
				}
			})
			if pp != nil {
				if !willFit && opname != "Reset" {
					// the refusal: nothing may have been written
					tr("  refused (max size)")
					r.Obs("maxsize_refusals", 1)
					r.DistinctKey("%s/raw/%s/refused", cs.Kind, opname)
					if !check("after refused " + opname) {
						return
					}
					continue
				}
				fail("panic/"+pp.Short(), fmt.Sprintf("%s(%d): %s\n%s", opname, n, pp.Msg, pp.Stack))
				return
			}
			if failed {
				return
			}
			if !willFit {
				fail("maxsize-not-refused", fmt.Sprintf("%s(%d) succeeded although LenWithPadding would exceed max %d", opname, n, cs.MaxSize))
				return
			}
			ref = append(ref, data...)
			if len(ref)+8 >= capa {
				grew = true
			}
			if !check("after " + opname) {
				return
			}
			r.Obs("raw_ops", 1)
			r.DistinctKey("%s/raw/%s/%s/%v", cs.Kind, opname, sizeClass(n), grew)
		}
		if !failed {
			r.Sample(2, map[string]any{"case": cs, "bytes_at_end": len(ref), "trace_tail": trace[max(0, len(trace)-5):]})
		}
		return
	}

	// slice mode
	var ref [][]byte
	nonEmpty := func(xs [][]byte) [][]byte {
		var out [][]byte
		for _, x := range xs {
			if len(x) > 0 {
				out = append(out, x)
			}
		}
		return out
	}
	equalLists := func(a, b [][]byte) int {
		if len(a) != len(b) {
			return min(len(a), len(b))
		}
		for i := range a {
			if !bytes.Equal(a[i], b[i]) {
				return i
			}
		}
		return -1
	}
	readAll := func() (viaOffsets, viaIterate, viaChain [][]byte) {
		for _, off := range b.SliceOffsets() {
			s, _ := b.Slice(off)
			viaOffsets = append(viaOffsets, s)
		}
		b.SliceIterate(func(s []byte) error { viaIterate = append(viaIterate, s); return nil })
		if !b.IsEmpty() {
			next := b.StartOffset()
			for next >= 0 {
				var s []byte
				s, next = b.Slice(next)
				viaChain = append(viaChain, s)
			}
		}
		return
	}
	check := func(where string) bool {
		want := nonEmpty(ref)
		var o, it, ch [][]byte
		if pp := lab.Try(func() { o, it, ch = readAll() }); pp != nil {
			fail("panic-reading-slices/"+pp.Short(), fmt.Sprintf("%s: reading the slices back panicked: %s", where, pp.Msg))
			return false
		}
		if i := equalLists(nonEmpty(o), want); i >= 0 {
			fail("slices-offsets", fmt.Sprintf("%s: Slice over SliceOffsets differs from the slices written at index %d (%d vs %d non-empty)", where, i, len(nonEmpty(o)), len(want)))
			return false
		}
		if i := equalLists(it, want); i >= 0 {
			fail("slices-iterate", fmt.Sprintf("%s: SliceIterate differs from the slices written at index %d (%d vs %d)", where, i, len(it), len(want)))
			return false
		}
		if i := equalLists(nonEmpty(ch), want); i >= 0 {
			fail("slices-chain", fmt.Sprintf("%s: following Slice's next offsets differs at index %d", where, i))
			return false
		}
		if cs.MaxSize > 0 && b.LenWithPadding() > cs.MaxSize {
			fail("maxsize-exceeded", fmt.Sprintf("%s: LenWithPadding=%d > max %d", where, b.LenWithPadding(), cs.MaxSize))
			return false
		}
		return true
	}
	less := c11Less[cs.Less]
	countClass := func(n int) string {
		switch {
		case n <= 2:
			return fmt.Sprint(n)
		case n < 1023:
			return "<1023"
		case n <= 1025:
			return fmt.Sprint(n)
		case n < 2047:
			return "<2047"
		case n <= 2049:
			return fmt.Sprint(n)
		default:
			return ">2049"
		}
	}
	write := func(data []byte, alloc bool) bool {
		n := len(data)
		willFit := fits(8 + n)
		opname := "WriteSlice"
		pp := lab.Try(func() {
			if alloc {
				opname = "SliceAllocate"
				s := b.SliceAllocate(n)
				if len(s) != n {
					fail("sliceallocate-length", fmt.Sprintf("SliceAllocate(%d) returned %d bytes", n, len(s)))
					return
				}
				copy(s, data)
			} else {
				b.WriteSlice(data)
			}
		})
		if pp != nil {
			if !willFit {
				r.Obs("maxsize_refusals", 1)
				r.DistinctKey("%s/slices/%s/refused", cs.Kind, opname)
				return true
			}
			fail("panic/"+pp.Short(), fmt.Sprintf("%s(%d): %s\n%s", opname, n, pp.Msg, pp.Stack))
			return false
		}
		if failed {
			return false
		}
		if !willFit {
			fail("maxsize-not-refused", fmt.Sprintf("%s(%d) succeeded although LenWithPadding would exceed max %d", opname, n, cs.MaxSize))
			return false
		}
		ref = append(ref, data)
		r.DistinctKey("%s/slices/%s/%s", cs.Kind, opname, sizeClass(n))
		return true
	}
	doSort := func(lo, hi int, between bool) bool {
		// lo/hi index into the list of all slices (including empty ones); offsets come from the buffer itself
		offs := b.SliceOffsets()
		if b.IsEmpty() {
			offs = nil
		}
		before := make([][]byte, len(ref))
		for i := range ref {
			before[i] = ref[i]
		}
		pp := lab.Try(func() {
			if between {
				start := offs[lo]
				end := b.LenWithPadding()
				if hi < len(offs) {
					end = offs[hi]
				}
				tr("SortSliceBetween(slices %d..%d of %d, %s)", lo, hi, len(ref), cs.Less)
				b.SortSliceBetween(start, end, less)
			} else {
				tr("SortSlice(%d slices, %s)", len(ref), cs.Less)
				b.SortSlice(less)
			}
		})
		if pp != nil {
			fail("panic-sort/"+pp.Short(), pp.Msg+"\n"+pp.Stack)
			return false
		}
		var got [][]byte
		if pp := lab.Try(func() {
			for _, off := range b.SliceOffsets() {
				s, _ := b.Slice(off)
				got = append(got, append([]byte(nil), s...))
			}
		}); pp != nil {
			fail("panic-reading-slices-after-sort/"+pp.Short(), "reading the slices back after the sort panicked: "+pp.Msg)
			return false
		}
		if b.IsEmpty() {
			got = nil
		}
		if len(got) != len(before) {
			fail("sort-count", fmt.Sprintf("sort changed the number of slices %d -> %d", len(before), len(got)))
			return false
		}
		// outside the range nothing moves
		for i := 0; i < lo; i++ {
			if !bytes.Equal(got[i], before[i]) {
				fail("sort-outside-range", fmt.Sprintf("slice %d before the sorted range changed", i))
				return false
			}
		}
		for i := hi; i < len(before); i++ {
			if !bytes.Equal(got[i], before[i]) {
				fail("sort-outside-range", fmt.Sprintf("slice %d after the sorted range changed", i))
				return false
			}
		}
		// permutation inside
		cnt := map[string]int{}
		for i := lo; i < hi; i++ {
			cnt[string(before[i])]++
		}
		for i := lo; i < hi; i++ {
			cnt[string(got[i])]--
		}
		for k, v := range cnt {
			if v != 0 {
				fail("sort-not-permutation", fmt.Sprintf("after sorting, a slice of %d bytes appears %+d times too few/many", len(k), v))
				return false
			}
		}
		for i := lo + 1; i < hi; i++ {
			if less(got[i], got[i-1]) {
				fail("sort-order", fmt.Sprintf("after sorting %d slices with %q, slice %d sorts before slice %d", hi-lo, cs.Less, i, i-1))
				return false
			}
		}
		copy(ref, got)
		r.Obs("sorts", 1)
		r.Obs("slices_sorted", int64(hi-lo))
		r.DistinctKey("%s/sort/%s/%s/%v", cs.Kind, cs.Less, countClass(hi-lo), between)
		return true
	}
	sliceData := func() []byte {
		var n int
		if cs.Count > 200 {
			n = lab.Pick(rng, []int{0, 1, 2, 3, 7, 8, 9, 20, 33})
			if rng.Chance(0.01) {
				n = rng.Intn(3000)
			}
		} else {
			n = c11Size(rng, capa)
		}
		d := make([]byte, n)
		c11Fill(rng, d)
		if n > 0 && rng.Chance(0.3) {
			d[n-1] = byte(rng.Intn(4)) // ties for lastbyte
		}
		return d
	}
	if cs.Count > 0 || (cs.Count == 0 && cs.Less != "" && rng.Chance(0.2)) {
		// exactly Count slices, then sort everything, then interior ranges
		for i := 0; i < cs.Count && !failed; i++ {
			if !write(sliceData(), rng.Chance(0.3)) {
				return
			}
		}
		if !check("after filling") {
			return
		}
		if !doSort(0, len(ref), false) || !check("after SortSlice") {
			return
		}
		for k := 0; k < 3 && len(ref) >= 2; k++ {
			lo := rng.Intn(len(ref))
			hi := lo + rng.Intn(len(ref)-lo+1)
			if lo == hi {
				continue
			}
			// shuffle content first by appending a few more slices so ranges are unsorted again
			if !doSort(lo, hi, true) || !check("after SortSliceBetween") {
				return
			}
		}
	}
	for i := 0; i < cs.Ops && !failed; i++ {
		op := rng.Intn(100)
		switch {
		case op < 50:
			d := sliceData()
			tr("WriteSlice(%d bytes)", len(d))
			if !write(d, false) {
				return
			}
		case op < 80:
			d := sliceData()
			tr("SliceAllocate(%d)", len(d))
			if !write(d, true) {
				return
			}
		case op < 88:
			if len(ref) > 0 && !doSort(0, len(ref), false) {
				return
			}
		case op < 95:
			if len(ref) >= 2 {
				lo := rng.Intn(len(ref))
				hi := lo + 1 + rng.Intn(len(ref)-lo)
				if !doSort(lo, hi, true) {
					return
				}
			}
		default:
			tr("Reset()")
			b.Reset()
			ref = ref[:0]
			r.DistinctKey("%s/slices/reset", cs.Kind)
		}
		if !check("after op") {
			return
		}
		r.Obs("slice_ops", 1)
	}
	if !failed {
		r.Sample(2, map[string]any{"case": cs, "slices_at_end": len(ref), "trace_tail": trace[max(0, len(trace)-5):]})
	}
}

// c11Huge: ONE request larger than the 1 GiB growth step on a small buffer that already holds data (sparse
// file / untouched pages, so it costs nothing): the buffer must grow by at least what was asked for, hand out exactly
// that many bytes, keep what was written before and read back what is written at both ends of the new region.
func c11Huge(c *Ctx, kind string, viaOffset bool) {
	r := c.R
	r.Eval(1)
	name := fmt.Sprintf("c11-huge-request-%s-offset%v", kind, viaOffset)
	c.J.Case(name)
	var b *z.Buffer
	var err error
	if kind == "mmap" {
		b, err = z.NewBufferTmp(c.TmpDir, 4096)
	} else {
		b = z.NewBuffer(4096, "verif")
	}
	if err != nil || b == nil {
		r.Inconc(1)
		return
	}
	defer lab.Try(func() { b.Release() })
	fail := func(sig, d string) { r.Violate("C11/"+sig, fmt.Sprintf("[%s] %s", name, d), name) }
	head := []byte("written-before-the-huge-request")
	const n = 1<<30 + 4096 + 13
	p := lab.Try(func() {
		b.Write(head)
		before := b.LenNoPadding()
		var region []byte
		if viaOffset {
			end := b.LenWithPadding() // offsets count the padding in front of the data
			off := b.AllocateOffset(n)
			if off != end {
				fail("huge/offset", fmt.Sprintf("AllocateOffset(%d) returned %d, the buffer ended at offset %d", n, off, end))
				return
			}
			region = b.Data(off) // everything from off to the end of the capacity
			if len(region) < n {
				fail("huge/length", fmt.Sprintf("asked for %d bytes at offset %d, only %d are addressable", n, off, len(region)))
				return
			}
			region = region[:n]
		} else {
			region = b.Allocate(n)
		}
		if len(region) != n {
			fail("huge/length", fmt.Sprintf("asked for %d bytes, got %d", n, len(region)))
			return
		}
		copy(region, "first-bytes")
		copy(region[n-10:], "last-bytes")
		all := b.Bytes()
		if len(all) != before+n {
			fail("huge/bytes-length", fmt.Sprintf("Bytes() has %d bytes after %d + %d were written", len(all), before, n))
			return
		}
		if string(all[:len(head)]) != string(head) || string(all[before:before+11]) != "first-bytes" || string(all[len(all)-10:]) != "last-bytes" {
			fail("huge/content", "what was written before or at the ends of the huge region does not read back")
			return
		}
		b.Write([]byte("tail"))
		if got := b.Bytes(); string(got[len(got)-4:]) != "tail" || len(got) != before+n+4 {
			fail("huge/append-after", "a Write after the huge region is not at the end of Bytes()")
		}
	})
	if p != nil {
		fail("huge/panic/"+p.Short(), p.Msg)
		return
	}
	r.Obs("huge_requests", 1)
	r.DistinctKey("%s", name)
}
