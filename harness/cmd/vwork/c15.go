package main

// C15 (free-running part) — Close and Clear leave a consistent cache. Clients
// run freely (no gate), are joined WITHOUT draining the write buffer, then
// Clear (later Close) is called with delay injection at the three vpClear*
// points and inside callbacks; post-conditions are asserted afterwards and the
// life cycle of every value is checked over the merged log. Episodes run one
// at a time in the process so that the goroutine profile is attributable.

import (
	"fmt"
	ristretto "github.com/dgraph-io/ristretto/v2"
	"runtime"
	"strings"
	"sync"
	"sync/atomic"
	"time"

	"verif/harness/lab"
)

func init() { registry["C15S"] = runC15Stress }

type c15Case struct {
	Name    string       `json:"name"`
	Cfg     lab.CacheCfg `json:"cfg"`
	Workers int          `json:"workers"`
	Ops     int          `json:"ops_per_worker"`
	Waiters int          `json:"blocked_waiters"`
	Delay   float64      `json:"delay_level"`
	Stream  uint64       `json:"stream"`
}

func runC15Stress(c *Ctx) {
	r := c.R
	r.Rule = "free-running episodes: writers (Set/SetWithTTL/Del/Get) are joined with the write buffer left as it is (new items, updates, tombstones, Wait markers of helper goroutines still queued), then Clear runs with delays at its three internal points; post-conditions (empty snapshot, RemainingCost == MaxCost, metrics zero, nothing enumerated, waiters released, new write served); second phase, then Close with its post-conditions and the goroutine profile; life-cycle automaton over the merged log; distinct by (configuration class, what was queued at Clear/Close: new/update/tombstone/marker counts capped)"
	n := c.N(60, 480)
	for i := 0; i < n; i++ {
		if i%c.NParts != c.Part {
			continue
		}
		rng := lab.NewRNG(c.Seed, 1500000+uint64(i))
		nk := lab.Pick(rng, []int{4, 16, 64})
		cs := c15Case{
			Cfg: lab.CacheCfg{NumCounters: int64(nk * 10), MaxCost: lab.Pick(rng, []int64{int64(nk * 100), int64(nk), 3}), BufferItems: 64, Metrics: true,
				IgnoreInternalCost: true, KeyKind: lab.Pick(rng, []string{"uint64", "string"}), NKeys: nk, TTLTick: 1, SetBuf: lab.Pick(rng, []int{0, 0, 8, 64, 512})},
			Workers: lab.Pick(rng, []int{1, 2, 4, 8}), Ops: lab.Pick(rng, []int{20, 200, 2000}), Waiters: rng.Intn(4), Delay: lab.Pick(rng, []float64{0, 1, 2}), Stream: uint64(i),
		}
		cs.Name = fmt.Sprintf("c15s-nk%d-cap%d-buf%d-w%d-ops%d-wait%d", nk, cs.Cfg.MaxCost, cs.Cfg.SetBuf, cs.Workers, cs.Ops, cs.Waiters)
		c.J.Case(cs)
		c15Episode(c, rng, cs)
	}
}

func c15Episode(c *Ctx, rng *lab.RNG, cs c15Case) {
	r := c.R
	r.Eval(1)
	l, err := lab.NewLab(cs.Cfg)
	if err != nil {
		r.Inconc(1)
		return
	}
	defer l.Forget()
	bad := false
	fail := func(sig, d string) {
		bad = true
		r.Violate("C15/"+sig, fmt.Sprintf("[%s] %s", cs.Name, d), cs)
	}
	d := lab.NewDelayer(uint64(c.Seed)*17+cs.Stream, cs.Delay)
	l.CbDelay = func(int) { d.Maybe() }
	l.SetHook(func(point int, arg uint64) { d.Maybe() })
	clients := make([]*lab.Client, cs.Workers+1)
	for i := range clients {
		clients[i] = l.NewClient()
	}
	main := clients[cs.Workers]
	phase := func(ph int) {
		var wg sync.WaitGroup
		for w := 0; w < cs.Workers; w++ {
			wg.Add(1)
			go func(w int) {
				defer wg.Done()
				cl := clients[w]
				wr := lab.NewRNG(c.Seed, cs.Stream*7919+uint64(ph*100+w))
				for i := 0; i < cs.Ops; i++ {
					k := wr.Intn(cs.Cfg.NKeys)
					switch x := wr.Intn(100); {
					case x < 45:
						cl.Set(k, cl.NextVal(k), int64(1+wr.Intn(3)), 0)
					case x < 60:
						cl.Set(k, cl.NextVal(k), 1, time.Duration(1+wr.Intn(40))*time.Millisecond)
					case x < 75:
						cl.Del(k)
					default:
						cl.Get(k)
					}
				}
			}(w)
		}
		wg.Wait()
	}
	timed := func(f func(), what string) bool {
		done := make(chan struct{})
		go func() { f(); close(done) }()
		select {
		case <-done:
			return true
		case <-time.After(60 * time.Second):
			fail("call-stuck", what+" did not return within 60 s")
			return false
		}
	}
	phase(0)
	// helper goroutines blocked in (or racing into) Wait when Clear runs
	var wwg sync.WaitGroup
	for i := 0; i < cs.Waiters; i++ {
		wwg.Add(1)
		go func() { defer wwg.Done(); l.C.Wait() }()
	}
	queued := l.C.Snapshot().SetBufLen
	if !timed(main.Clear, "Clear") {
		return
	}
	waitersDone := make(chan struct{})
	go func() { wwg.Wait(); close(waitersDone) }()
	select {
	case <-waitersDone:
	case <-time.After(30 * time.Second):
		fail("clear-postcondition/waiter-not-released", "a goroutine that called Wait() before Clear is still blocked 30 s after Clear returned")
		return
	}
	// post-conditions of Clear (no client is running)
	l.C.Pause()
	s := l.C.Snapshot()
	rc := l.C.RemainingCost()
	l.C.Resume()
	if len(s.Entries) != 0 || len(s.KeyCosts) != 0 || s.Used != 0 || len(s.Buckets) != 0 || s.SetBufLen != 0 {
		fail("clear-postcondition/not-empty", fmt.Sprintf("after Clear: %d map entries, %d accounted keys, used=%d, %d expiry buckets, %d buffered items", len(s.Entries), len(s.KeyCosts), s.Used, len(s.Buckets), s.SetBufLen))
	}
	if rc != s.MaxCost {
		fail("clear-postcondition/capacity", fmt.Sprintf("after Clear RemainingCost()=%d MaxCost=%d", rc, s.MaxCost))
	}
	if vals := main.IterValues(-1); len(vals) != 0 {
		fail("clear-postcondition/enumerates", fmt.Sprintf("after Clear IterValues yields %d values", len(vals)))
	}
	if mt := l.C.Metrics(); mt != nil {
		if tot := mt.Hits() + mt.Misses() + mt.KeysAdded() + mt.KeysUpdated() + mt.KeysEvicted() + mt.CostAdded() + mt.CostEvicted() + mt.SetsDropped() + mt.SetsRejected(); tot != 0 {
			fail("clear-postcondition/metrics", "after Clear the metrics are not reset: "+mt.String())
		}
	}
	// serves new writes as a fresh cache would: a fitting key is admitted and visible after Wait
	fresh := main.NextVal(0)
	if !main.Set(0, fresh, 1, 0) {
		fail("clear-postcondition/refuses-writes", "Set returned false on the cleared cache")
	} else if !timed(main.Wait, "Wait after Clear") {
		return
	} else if v, ok := main.Get(0); !ok || v != fresh {
		fail("clear-postcondition/does-not-serve", fmt.Sprintf("after Clear, Set+Wait of a fitting key: Get=(%#x,%v)", v, ok))
	}
	r.Obs("free_running_clears", 1)
	r.DistinctKey("clear/%s/buf%d/queued%d/waiters%d", cs.Cfg.KeyKind, cs.Cfg.SetBuf, min(queued, 4), cs.Waiters)
	phase(1)
	queued = l.C.Snapshot().SetBufLen
	if !timed(main.Close, "Close") {
		return
	}
	// post-conditions of Close
	if main.Set(1%cs.Cfg.NKeys, main.NextVal(1%cs.Cfg.NKeys), 1, 0) {
		fail("close-postcondition/set-true", "Set returned true after Close")
	}
	if _, ok := main.Get(0); ok {
		fail("close-postcondition/get-hit", "Get hit after Close")
	}
	if !timed(func() { main.Del(0) }, "Del after Close") || !timed(main.Wait, "Wait after Close") || !timed(main.Clear, "Clear after Close") || !timed(main.Close, "Close after Close") {
		return
	}
	deadline := time.Now().Add(10 * time.Second)
	for {
		buf := make([]byte, 1<<20)
		n := runtime.Stack(buf, true)
		cnt := strings.Count(string(buf[:n]), ").processItems(")
		if cnt == 0 {
			break
		}
		if time.Now().After(deadline) {
			fail("goroutine-leak", fmt.Sprintf("%d processItems goroutine(s) still alive 10 s after Close returned", cnt))
			break
		}
		time.Sleep(2 * time.Millisecond)
	}
	r.Obs("free_running_closes", 1)
	r.DistinctKey("close/%s/buf%d/queued%d", cs.Cfg.KeyKind, cs.Cfg.SetBuf, min(queued, 4))
	a := lab.Analyze(l.Merged())
	acc, ref := a.CheckLifecycle(func(sig, detail string, w any) {
		if !bad {
			bad = true
			r.Violate("C15/lifecycle/"+sig, fmt.Sprintf("[%s] %s", cs.Name, detail), map[string]any{"case": cs, "witness": w})
		}
	})
	r.Obs("values_accepted", acc)
	r.Obs("values_refused", ref)
	if !bad {
		r.Sample(2, map[string]any{"case": cs.Name, "events": len(a.Evs), "accepted_values": acc})
	}
}

// ---------------------------------------------------------------- directed: waiters blocked on a full write buffer

func init() { registry["C15D"] = runC15Directed }

// runC15Directed: the applier is held (gate), the write buffer is filled completely, W goroutines call Wait and
// are verifiably blocked on their marker send; then Clear or Close runs. Every one of those goroutines must be
// released by the time the call returns (their Wait began before the Clear/Close and the cache never refuses a
// marker), and every accepted value must have exited exactly once.
func runC15Directed(c *Ctx) {
	r := c.R
	r.Rule = "directed: applier held, write buffer of size B in {1,2,4,16} filled until a Set is refused, W in {1,3,8} goroutines blocked in Wait on the full buffer (verified in the goroutine profile), then Clear or Close with tokens granted one at a time; distinct by (B, W, Clear/Close, items applied before the applier stopped)"
	ristretto.VerifSetBucketSeconds(1) // before any cache of this process exists (a package variable of the library)
	if c.Part == 0 {
		runSlowClear(c, "C15") // sequential, before any other cache of this process exists (it counts applier goroutines)
	}
	var wg sync.WaitGroup
	defer wg.Wait()
	for rep := 0; rep < c.N(2, 8); rep++ {
		if rep%c.NParts == c.Part {
			wg.Add(1)
			go func(rep int) { defer wg.Done(); c15FreshVsCleared(c, 1+rep%2, uint64(rep)) }(rep)
			for _, nc := range []int64{64, 128, 1000} {
				for _, extra := range []int{0, 0, 3} {
					c15ClearForgetsFrequencies(c, nc, 1+rep%3, extra)
				}
			}
		}
	}
	idx := 0
	for rep := 0; rep < c.N(2, 12); rep++ {
		for _, B := range []int{1, 2, 4, 16} {
			for _, W := range []int{1, 3, 8} {
				for _, closeIt := range []bool{false, true} {
					idx++
					if idx%c.NParts != c.Part {
						continue
					}
					c15BlockedWaiters(c, B, W, closeIt, uint64(idx))
				}
			}
		}
	}
}

func countBlockedWaiters() int {
	buf := make([]byte, 4<<20)
	n := runtime.Stack(buf, true)
	cnt := 0
	for _, g := range strings.Split(string(buf[:n]), "\n\n") {
		if strings.Contains(g, "[chan send") && strings.Contains(g, ").Wait(") {
			cnt++
		}
	}
	return cnt
}

func c15BlockedWaiters(c *Ctx, B, W int, closeIt bool, stream uint64) {
	r := c.R
	r.Eval(1)
	name := fmt.Sprintf("c15d-buf%d-waiters%d-close%v", B, W, closeIt)
	c.J.Case(name)
	l, err := lab.NewLab(lab.CacheCfg{NumCounters: 1000, MaxCost: 1 << 20, BufferItems: 64, IgnoreInternalCost: true, KeyKind: "uint64", NKeys: B + 8, SetBuf: B})
	if err != nil {
		r.Inconc(1)
		return
	}
	defer l.Forget()
	fail := func(sig, d string) { r.Violate("C15/"+sig, fmt.Sprintf("[%s] %s", name, d), name) }
	g := lab.NewGate(l)
	cl := l.NewClient()
	// fill: one item in the applier's hand, B in the channel, then a refused one
	accepted := 0
	for k := 0; k < B+8; k++ {
		if cl.Set(k, cl.NextVal(k), 1, 0) {
			accepted++
			if accepted == 1 {
				if err := g.AwaitHeld(); err != nil {
					r.Inconc(1)
					g.Open()
					l.C.Close()
					return
				}
			}
		} else {
			break
		}
	}
	if accepted != B+1 {
		r.Inconc(1)
		r.Note("%s: expected %d accepted Sets before the buffer is full, got %d", name, B+1, accepted)
		g.Open()
		l.C.Close()
		return
	}
	base := countBlockedWaiters()
	var wg sync.WaitGroup
	for i := 0; i < W; i++ {
		wg.Add(1)
		go func() { defer wg.Done(); l.C.Wait() }()
	}
	deadline := time.Now().Add(20 * time.Second)
	for countBlockedWaiters()-base < W {
		if time.Now().After(deadline) {
			r.Inconc(1)
			r.Note("%s: the waiters did not all reach the blocked send", name)
			g.Open()
			wg.Wait()
			l.C.Close()
			return
		}
		time.Sleep(time.Millisecond)
	}
	s0 := g.Stopped()
	done := make(chan struct{})
	go func() {
		if closeIt {
			cl.Close()
		} else {
			cl.Clear()
		}
		close(done)
	}()
	applied := 0
	for {
		if g.Held() {
			if err := g.Step(); err != nil {
				r.Inconc(1)
				r.Note("%s: %v", name, err)
				g.Open()
				return
			}
			applied++
		}
		held, err := g.AwaitHeldOr(func(stopped, _ int) bool { return stopped > s0 })
		if err != nil {
			r.Inconc(1)
			r.Note("%s: %v", name, err)
			g.Open()
			return
		}
		if held && g.Stopped() == s0 {
			continue
		}
		break
	}
	g.Open()
	what := "Clear"
	if closeIt {
		what = "Close"
	}
	select {
	case <-done:
	case <-time.After(60 * time.Second):
		fail("call-stuck", what+" did not return within 60 s")
		return
	}
	released := make(chan struct{})
	go func() { wg.Wait(); close(released) }()
	select {
	case <-released:
	case <-time.After(30 * time.Second):
		fail("waiter-not-released", fmt.Sprintf("%d goroutines were blocked in Wait() on a full write buffer when %s was called; 30 s after %s returned %d of them are still blocked", W, what, what, countBlockedWaiters()-base))
		return
	}
	if !closeIt {
		cl.Wait()
		cl.Close()
	}
	a := lab.Analyze(l.Merged())
	a.CheckLifecycle(func(sig, detail string, w any) {
		r.Violate("C15/lifecycle/"+sig, fmt.Sprintf("[%s] %s", name, detail), map[string]any{"witness": w})
	})
	r.Obs("blocked_waiter_cases", 1)
	r.Obs("blocked_waiters_released", int64(W))
	r.DistinctKey("%s/applied%d", name, min(applied, 4))
	r.Sample(2, map[string]any{"case": name, "items_applied_before_stop": applied})
}

// c15FreshVsCleared: "a cleared cache behaves as a fresh one", decided differentially: one deterministic script
// (single client, Wait after every step, uniform access estimates so that admission does not depend on which
// victims the sampling picks) runs on a fresh cache and again after each Clear of the same cache; everything the
// script can observe - public metrics, RemainingCost, number of resident keys, numbers of callbacks - must be equal.
func c15FreshVsCleared(c *Ctx, nclears int, stream uint64) {
	r := c.R
	r.Eval(1)
	name := fmt.Sprintf("c15-fresh-vs-cleared-%dclears", nclears)
	c.J.Case(name)
	l, err := lab.NewLab(lab.CacheCfg{NumCounters: 1000, MaxCost: 20, BufferItems: 64, IgnoreInternalCost: true, Metrics: true, KeyKind: "uint64", NKeys: 64, TTLTick: 1})
	if err != nil {
		r.Inconc(1)
		return
	}
	defer l.Forget()
	defer l.C.Close()
	cl := l.NewClient()
	type obs struct {
		names []string
		vals  []int64
	}
	script := func() (o obs, ok bool) {
		add := func(n string, v int64) { o.names = append(o.names, n); o.vals = append(o.vals, v) }
		n0 := l.NumCallbacks()
		set := func(k int, cost int64, ttl time.Duration) uint64 {
			v := cl.NextVal(k)
			cl.Set(k, v, cost, ttl)
			cl.Wait()
			return v
		}
		for k := 0; k < 10; k++ {
			set(k, 1, 0)
		}
		for k := 0; k < 3; k++ {
			set(k, 2, 0) // cost-raising overwrites
		}
		for k := 0; k < 5; k++ {
			cl.Del(k) // all entries whose cost is not 1 leave before anything is evicted: the number of victims is then fixed
		}
		cl.Wait()
		hits := int64(0)
		for _, k := range []int{5, 6, 7} {
			if _, ok := cl.Get(k); ok {
				hits++
			}
		}
		tv := set(10, 1, 300*time.Millisecond)
		deadline := time.Now().Add(5 * time.Second)
		for {
			if ev, _ := valueEvents(l.CallbacksSince(n0), tv); ev > 0 {
				break
			}
			if time.Now().After(deadline) {
				return o, false // bounded progress of the sweep is C14's business
			}
			time.Sleep(50 * time.Millisecond)
		}
		for k := 20; k < 45; k++ {
			set(k, 1, 0) // 15 fit, the other 10 need one victim each (all estimates are equal: nobody is turned away)
		}
		set(46, 21, 0) // larger than MaxCost
		for _, k := range []int{5, 50, 51} {
			cl.Get(k) // whether 5 survived the evictions depends on the sampling: only Hits+Misses is deterministic
		}
		m := l.C.Metrics()
		add("hits before any eviction", hits)
		add("Hits+Misses", int64(m.Hits()+m.Misses()))
		add("KeysAdded", int64(m.KeysAdded()))
		add("KeysUpdated", int64(m.KeysUpdated()))
		add("KeysEvicted", int64(m.KeysEvicted()))
		add("CostAdded", int64(m.CostAdded()))
		add("SetsDropped", int64(m.SetsDropped()))
		add("SetsRejected", int64(m.SetsRejected()))
		l.C.Pause()
		snap := l.C.Snapshot()
		rc := l.C.RemainingCost()
		l.C.Resume()
		add("CostAdded-CostEvicted-used", int64(m.CostAdded())-int64(m.CostEvicted())-snap.Used)
		add("RemainingCost+used", rc+snap.Used)
		var ne, nr, nx int64
		for _, e := range l.CallbacksSince(n0) {
			switch e.Kind {
			case lab.EvOnEvict:
				ne++
			case lab.EvOnReject:
				nr++
			case lab.EvOnExit:
				nx++
			}
		}
		add("OnEvict calls", ne)
		add("OnReject calls", nr)
		add("OnExit calls", nx)
		return o, true
	}
	fresh, ok := script()
	if !ok {
		r.Inconc(1)
		return
	}
	for i := 1; i <= nclears; i++ {
		cl.Clear()
		again, ok := script()
		if !ok {
			r.Inconc(1)
			return
		}
		for j := range fresh.vals {
			r.Obs("fresh_vs_cleared_comparisons", 1)
			if fresh.vals[j] != again.vals[j] {
				r.Violate("C15/cleared-differs-from-fresh", fmt.Sprintf("[%s] the same script run on the fresh cache and again after Clear #%d: %s = %d on the fresh cache, %d on the cleared one (all observations: %v fresh %v cleared %v)", name, i, fresh.names[j], fresh.vals[j], again.vals[j], fresh.names, fresh.vals, again.vals), name)
				return
			}
		}
	}
	r.DistinctKey("%s/%v", name, fresh.vals)
}

// c15ClearForgetsFrequencies: the same admission probe (two residents fill MaxCost = 2, a never-seen newcomer of
// cost 1 arrives) on the fresh cache and again after the residents were made hot and the cache was cleared. Accesses
// are recorded synchronously (windows*NumCounters + extra of them, so that with extra = 0 the last one closes an aging
// window), nothing is in flight at Clear: the cleared cache must decide as the fresh one did.
func c15ClearForgetsFrequencies(c *Ctx, nc int64, windows, extra int) {
	r := c.R
	r.Eval(1)
	name := fmt.Sprintf("c15-clear-forgets-frequencies-nc%d-w%d+%d", nc, windows, extra)
	c.J.Case(name)
	l, err := lab.NewLab(lab.CacheCfg{NumCounters: nc, MaxCost: 2, BufferItems: 64, IgnoreInternalCost: true, KeyKind: "uint64", NKeys: 8})
	if err != nil {
		r.Inconc(1)
		return
	}
	defer l.Forget()
	defer l.C.Close()
	cl := l.NewClient()
	probe := func(a, b, n int) (admitted bool, ok bool) {
		for _, k := range []int{a, b} {
			if !cl.Set(k, cl.NextVal(k), 1, 0) {
				return false, false
			}
			cl.Wait()
		}
		if !cl.Set(n, cl.NextVal(n), 1, 0) {
			return false, false
		}
		cl.Wait()
		_, admitted = l.C.Snapshot().KeyCosts[l.Hashes[n][0]]
		return admitted, true
	}
	fresh, ok := probe(0, 1, 2)
	if !ok {
		r.Inconc(1)
		return
	}
	total := windows*int(nc) + extra
	for i := 0; i < total; i++ {
		l.C.Increment(l.Hashes[i%2][0], 1)
	}
	e0, e1 := l.C.Estimate(l.Hashes[0][0]), l.C.Estimate(l.Hashes[1][0])
	cl.Clear()
	cleared, ok := probe(0, 1, 3)
	if !ok {
		r.Inconc(1)
		return
	}
	r.Obs("clear_forgets_frequencies_probes", 1)
	if fresh != cleared {
		r.Violate("C15/cleared-differs-from-fresh", fmt.Sprintf("[%s] two residents fill the cache and a never-seen newcomer arrives: admitted=%v on the fresh cache, admitted=%v after %d recorded accesses of the two residents (estimates %d and %d) followed by Clear; estimates right after the probe: %d and %d", name, fresh, cleared, total, e0, e1, l.C.Estimate(l.Hashes[0][0]), l.C.Estimate(l.Hashes[1][0])), name)
		return
	}
	r.DistinctKey("%s/adm%v", name, fresh)
}

// ---------------------------------------------------------------- Clear while the applier is stalled in a callback

func init() {
	registry["C05C"] = func(c *Ctx) { runSlowClear(c, "C05") }
}

// runSlowClear: the applier is kept busy (as a slow user callback would) for 1.5 s while Clear is called; Clear may
// take as long as it likes, but afterwards the cache must still have exactly one applier: the number of
// processItems goroutines is compared with the number of open caches (C15), and 200 rounds of Set(new key); Del;
// Wait; Get with a slow application of new items must all miss (C05: the tombstone and the Wait marker are ordered
// behind the Set only if a single consumer drains the write buffer).
func runSlowClear(c *Ctx, prop string) {
	r := c.R
	if r.Rule == "" {
		r.Rule = "directed: applier held 1.5 s at its item hook while Clear is in flight; after Clear returns: exactly one processItems goroutine, then 200 x (Set new key; Del; Wait; Get must miss) with new items applied slowly; distinct by (write-buffer size)"
	}
	for i, sb := range []int{0, 4, 64} {
		if i%c.NParts != c.Part%c.NParts && c.NParts > 1 {
			continue
		}
		slowClearCase(c, prop, sb)
	}
}

func countAppliers() int {
	buf := make([]byte, 4<<20)
	n := runtime.Stack(buf, true)
	// the cache's applier only: the policy has a goroutine of the same name for the access batches
	return strings.Count(string(buf[:n]), "(*Cache[...]).processItems(")
}

func slowClearCase(c *Ctx, prop string, setbuf int) {
	r := c.R
	r.Eval(1)
	name := fmt.Sprintf("slow-clear-buf%d", setbuf)
	c.J.Case(name)
	before := countAppliers()
	l, err := lab.NewLab(lab.CacheCfg{NumCounters: 10000, MaxCost: 1 << 20, BufferItems: 64, IgnoreInternalCost: true, KeyKind: "uint64", NKeys: 512, SetBuf: setbuf})
	if err != nil {
		r.Inconc(1)
		return
	}
	defer l.Forget()
	cl := l.NewClient()
	var hold atomic.Bool
	var slowNew atomic.Bool
	held := make(chan struct{}, 1)
	release := make(chan struct{})
	l.SetHook(func(point int, arg uint64) {
		if point != ristretto.VPApplierItem {
			return
		}
		if hold.CompareAndSwap(true, false) {
			held <- struct{}{}
			<-release
			return
		}
		if slowNew.Load() {
			time.Sleep(300 * time.Microsecond)
		}
	})
	cl.Set(0, cl.NextVal(0), 1, 0)
	cl.Wait()
	hold.Store(true)
	cl.Set(1, cl.NextVal(1), 1, 0)
	select {
	case <-held:
	case <-time.After(20 * time.Second):
		r.Inconc(1)
		close(release)
		l.C.Close()
		return
	}
	cleared := make(chan struct{})
	go func() { l.C.Clear(); close(cleared) }()
	time.Sleep(1500 * time.Millisecond)
	close(release)
	select {
	case <-cleared:
	case <-time.After(60 * time.Second):
		r.Inconc(1) // whether Clear returns is C08's / C15's bounded-return clause elsewhere
		return
	}
	time.Sleep(20 * time.Millisecond)
	r.Obs("slow_clear_cases", 1)
	if n := countAppliers() - before; n != 1 && prop == "C15" {
		r.Violate("C15/clear-postcondition/applier-count", fmt.Sprintf("[%s] after a Clear that overlapped a 1.5 s stall of the applier, %d processItems goroutines serve this cache (want 1)", name, n), name)
		l.C.Close()
		return
	}
	slowNew.Store(true)
	for i := 0; i < 200; i++ {
		k := 2 + i
		v := cl.NextVal(k)
		if !cl.Set(k, v, 1, 0) {
			continue
		}
		cl.Del(k)
		cl.Wait()
		got, hit := cl.Get(k)
		if !hit {
			time.Sleep(500 * time.Microsecond)
			got, hit = cl.Get(k)
		}
		r.Obs("del_wait_get_rounds_after_slow_clear", 1)
		if hit {
			sig := prop + "/hit-after-del-and-wait"
			if prop == "C15" {
				sig = "C15/clear-postcondition/write-order-lost"
			}
			r.Violate(sig, fmt.Sprintf("[%s] after a Clear that overlapped a 1.5 s stall of the applier: Set(k%d) ; Del(k%d) ; Wait() ; Get(k%d) = (%#x, true) with no later Set", name, k, k, k, got), name)
			break
		}
	}
	slowNew.Store(false)
	l.SetHook(nil)
	done := make(chan struct{})
	go func() { lab.Try(func() { l.C.Close() }); close(done) }()
	select {
	case <-done:
	case <-time.After(30 * time.Second):
	}
	r.DistinctKey("%s/%s", prop, name)
}
