package main

// Property-specific drivers over runStress: C01 (provenance), C02 (no hit
// after exit + porcupine register), C03/C13/C17 (quiescent invariants), C04
// (life cycle).

import (
	"fmt"
	"math"
	"math/big"
	"strings"
	"sync"
	"time"

	ristretto "github.com/dgraph-io/ristretto/v2"
	"verif/harness/lab"
)

type stressChecks struct {
	Prov, HitAfterExit, Lifecycle bool
	Snap                          []string // prefixes of snapshot findings owned by this property
}

// accountStress reports the episode's findings under property prop and feeds the evidence counters.
func accountStress(c *Ctx, prop string, o stressOpts, res *stressResult, ch stressChecks) {
	r := c.R
	r.Eval(1)
	if res.Err != nil {
		r.Note("episode %s: %v", o.Name, res.Err)
		r.Inconc(1)
		return
	}
	a := res.A
	rep := func(sig, detail string, w any) {
		sig = strings.TrimPrefix(sig, prop+"/")
		r.Violate(prop+"/"+sig, fmt.Sprintf("[%s] %s", o.Name, detail), map[string]any{"episode": o, "witness": w})
	}
	if ch.Prov {
		r.Obs("hits_checked_for_provenance", a.CheckProvenance(rep))
	}
	if ch.HitAfterExit {
		r.Obs("hits_checked_against_exits", a.CheckNoHitAfterExit(rep))
	}
	if ch.Lifecycle {
		acc, ref := a.CheckLifecycle(rep)
		r.Obs("values_accepted", acc)
		r.Obs("values_refused", ref)
	}
	for _, f := range res.Findings {
		owned := false
		for _, p := range ch.Snap {
			if strings.HasPrefix(f.Sig, p) {
				owned = true
			}
		}
		if strings.HasPrefix(f.Sig, "harness/") {
			r.Note("episode %s: %s %s", o.Name, f.Sig, f.Detail)
			r.Inconc(1)
			continue
		}
		if owned {
			rep(f.Sig, f.Detail, f.W)
		} else {
			r.Obs("findings_owned_by_other_property["+f.Sig+"]", 1)
		}
	}
	if res.NegativeRemaining > 0 {
		for _, p := range ch.Snap {
			if p == "C03/" {
				rep("C03/negative-remaining-sampled", fmt.Sprintf("a concurrent sampler read RemainingCost()<0 %d times in a history without cost-raising overwrites", res.NegativeRemaining), nil)
			}
		}
	}
	for k, v := range a.Counts {
		r.Obs("ev_"+k, v)
	}
	r.Obs("zero_valued_callbacks_ignored", res.L.ZeroCallbacks.Load())
	r.Obs("quiescent_snapshots", int64(res.Snaps))
	r.Obs("delays_injected", res.Delays)
	// distinct per-key interleaving shapes: 4-grams of per-key event kinds (with outcome flag)
	last := map[int32][]byte{}
	for _, e := range a.Evs {
		if e.Key < 0 || e.Kind == lab.EvHook {
			continue
		}
		code := byte(e.Kind) << 1
		if e.Ok {
			code |= 1
		}
		g := append(last[e.Key], code)
		if len(g) > 4 {
			g = g[1:]
		}
		last[e.Key] = g
		if len(g) == 4 {
			r.DistinctKey("%s/%x", o.Name, g)
		}
	}
	if len(a.Evs) > 0 {
		var frag []string
		for _, e := range a.Evs[len(a.Evs)/2:] {
			frag = append(frag, e.String())
			if len(frag) == 6 {
				break
			}
		}
		r.Sample(3, map[string]any{"episode": o.Name, "events": len(a.Evs), "history_fragment": frag})
	}
}

var allKeyKinds = []string{"string", "bytes", "int", "uint64", "uint32", "int64", "byte", "named", "int32", "uint"}

func baseMix() map[string]int {
	return map[string]int{"get": 40, "set": 25, "setttl": 8, "del": 8, "getttl": 4, "iter": 2, "wait": 2}
}

// ---------------------------------------------------------------- C01

func init() { registry["C01"] = runC01 }

func runC01(c *Ctx) {
	c.R.Rule = "stress episodes = configuration (key type, hashing incl. forced primary-hash collision classes, capacity, TTL share, goroutines, delay injection) x free-running run; every hit of Get/IterValues is checked for provenance; distinct = per-key 4-grams of event kinds (with outcome) per configuration; non-trivial when the 4-gram contains at least one hit or callback"
	n := c.N(32, 256)
	for i := 0; i < n; i++ {
		if i%c.NParts != c.Part {
			continue
		}
		rng := lab.NewRNG(c.Seed, 100000+uint64(i))
		kind := allKeyKinds[i%len(allKeyKinds)]
		if i%8 == 5 {
			kind = []string{"bytes-short", "string-short"}[(i/8)%2] // default hashing of short keys that differ only in trailing zero bytes
		}
		if i%8 == 1 {
			kind = []string{"bytes-long", "string-long"}[(i/8)%2] // default hashing of long keys that differ only in their middle
		}
		nk := lab.Pick(rng, []int{4, 8, 16, 64})
		if kind == "byte" && nk > 200 {
			nk = 64
		}
		collide := 0
		if i%2 == 1 && i%8 != 5 && i%8 != 1 {
			collide = lab.Pick(rng, []int{1, 2, 4})
		}
		capacity := lab.Pick(rng, []int64{int64(nk) * 4, int64(nk), int64(max(1, nk/4))})
		o := stressOpts{
			Name: fmt.Sprintf("c01-%s-collide%d-nk%d-cap%d", kind, collide, nk, capacity),
			Cfg: lab.CacheCfg{NumCounters: int64(nk * 10), MaxCost: capacity, BufferItems: lab.Pick(rng, []int64{1, 8, 64}), IgnoreInternalCost: true,
				KeyKind: kind, Collide: collide, NKeys: nk, TTLTick: 1, SetBuf: lab.Pick(rng, []int{0, 0, 64, 4}), AllowHashDup: i%8 == 5 || i%8 == 1, KeyZero: i%4 == 2},
			Workers: lab.Pick(rng, []int{2, 4, 8, 16, 64}), Probers: 1, OpsPerPhase: 0, Phases: 2,
			Mix: baseMix(), TTLsMs: []int{1, 5, 20, 50}, CostMode: "one", DelayLevel: float64(rng.Intn(3)) * 0.5,
			EndWith: "close", Stream: uint64(i),
		}
		o.Mix["clear"] = rng.Intn(2)
		o.OpsPerPhase = c.N(12000, 14000) / o.Workers
		c.J.Case(o)
		res := runStress(c, o)
		accountStress(c, "C01", o, res, stressChecks{Prov: true})
		c.R.Obs(fmt.Sprintf("episodes_collide_%d", collide), 1)
	}
}

// ---------------------------------------------------------------- C04

func init() { registry["C04"] = runC04 }

func runC04(c *Ctx) {
	c.R.Rule = "stress episodes over (write-buffer size 1..32768, capacity from rejecting almost everything to admitting everything, TTLs with 1-second buckets, ShouldUpdate refusals, concurrent Clear, end with Close or Clear;Close) with delay injection; per-value life-cycle automaton over the merged event log; distinct = per-key 4-grams of event kinds per configuration"
	n := c.N(32, 256)
	for i := 0; i < n; i++ {
		if i%c.NParts != c.Part {
			continue
		}
		rng := lab.NewRNG(c.Seed, 400000+uint64(i))
		nk := lab.Pick(rng, []int{8, 32, 128})
		o := stressOpts{
			Cfg: lab.CacheCfg{NumCounters: int64(nk * 10), MaxCost: lab.Pick(rng, []int64{2, int64(nk / 4), int64(nk), int64(nk * 20)}), BufferItems: 64,
				IgnoreInternalCost: true, KeyKind: lab.Pick(rng, []string{"uint64", "string"}), NKeys: nk, TTLTick: 1,
				SetBuf: []int{1, 4, 64, 32768}[i%4], KeyZero: i%4 == 1},
			Workers: lab.Pick(rng, []int{2, 4, 8, 16}), Probers: 1, Phases: 3,
			Mix: baseMix(), TTLsMs: []int{1, 10, 100, 1500, -5}, CostMode: lab.Pick(rng, []string{"one", "key", "random"}),
			DelayLevel: float64(rng.Intn(3)) * 0.5, EndWith: lab.Pick(rng, []string{"close", "clear"}), Stream: uint64(i),
		}
		if i%3 == 0 {
			o.Cfg.ShouldUpdate = "parity"
		}
		if i%5 != 0 {
			o.Mix["clear"] = 1
		}
		o.Name = fmt.Sprintf("c04-buf%d-cap%d-nk%d-su%s-end%s", o.Cfg.SetBuf, o.Cfg.MaxCost, nk, o.Cfg.ShouldUpdate, o.EndWith)
		o.OpsPerPhase = c.N(8000, 10000) / o.Workers
		c.J.Case(o)
		res := runStress(c, o)
		accountStress(c, "C04", o, res, stressChecks{Lifecycle: true, HitAfterExit: true})
	}
}

// ---------------------------------------------------------------- C13 / C03 / C17 (quiescent invariants)

func init() {
	registry["C13"] = func(c *Ctx) { runQuiescent(c, "C13") }
	registry["C03"] = func(c *Ctx) { runQuiescent(c, "C03") }
	registry["C17"] = func(c *Ctx) { runQuiescent(c, "C17") }
}

func runQuiescent(c *Ctx, prop string) {
	c.R.Rule = "stress episodes (evictions, rejections, expiries with 1-second buckets, buffer-full drops, Del, Clear at barriers) with all clients parked at barriers; at each quiescent point (Wait, applier paused) a white-box snapshot is compared with the public readings; distinct = per-key 4-grams of event kinds per configuration; every snapshot counts as an observation"
	n := c.N(32, 256)
	offs := map[string]uint64{"C13": 1300000, "C03": 300000, "C17": 1700000}[prop]
	for i := 0; i < n; i++ {
		if i%c.NParts != c.Part {
			continue
		}
		rng := lab.NewRNG(c.Seed, offs+uint64(i))
		nk := lab.Pick(rng, []int{8, 32, 128, 512})
		o := stressOpts{
			Cfg: lab.CacheCfg{NumCounters: int64(nk * 10), BufferItems: lab.Pick(rng, []int64{1, 64}), KeyKind: "uint64", NKeys: nk, TTLTick: 1,
				SetBuf: []int{1, 4, 64, 32768}[i%4], Metrics: prop == "C17" || i%2 == 0, IgnoreInternalCost: i%3 != 0, KeyZero: i%4 == 2},
			Workers: lab.Pick(rng, []int{2, 4, 8}), Probers: 1, Phases: 5, Quiesce: true,
			Mix: baseMix(), TTLsMs: []int{1, 10, 100, 1200}, DelayLevel: float64(rng.Intn(3)) * 0.5,
			EndWith: "close", Stream: uint64(i), ClearAtBarrier: i%4 == 1,
		}
		switch prop {
		case "C03":
			o.CostMode = []string{"key", "keyskew", "zero", "one", "keyskew", "random"}[i%6]
			if o.CostMode == "zero" {
				o.Cfg.CostFn = "keycost"
			}
			o.MaxCostRaise = i%7 == 3
			if o.MaxCostRaise {
				o.Mix["maxcost"] = 1
			}
		case "C17":
			o.CostMode = []string{"random", "key", "one"}[i%3]
		default:
			o.CostMode = []string{"key", "one", "random"}[i%3]
			o.FinalDrain = []string{"del", "clear", "expire", ""}[i%4]
			if i%3 != 1 {
				o.Mix["clear"] = 1 // Clear concurrent with the writers (the statement's histories include Clear)
			}
		}
		// capacities: in units of the per-key cost scale
		unit := int64(7)
		if !o.Cfg.IgnoreInternalCost {
			unit += 56
		}
		o.Cfg.MaxCost = unit * lab.Pick(rng, []int64{1, int64(max(1, nk/8)), int64(nk / 2), int64(nk * 2)})
		if o.CostMode == "keyskew" {
			// many cheap residents and an occasional item costing as much as dozens of them: one admission needs many victims
			o.Cfg.IgnoreInternalCost = true
			o.Cfg.MaxCost = lab.Pick(rng, []int64{50, 60, 100, int64(nk)})
			if o.Cfg.MaxCost < 50 {
				o.Cfg.MaxCost = 50
			}
		}
		o.Name = fmt.Sprintf("%s-buf%d-cap%d-nk%d-cost%s-int%v-m%v", strings.ToLower(prop), o.Cfg.SetBuf, o.Cfg.MaxCost, nk, o.CostMode, !o.Cfg.IgnoreInternalCost, o.Cfg.Metrics)
		o.OpsPerPhase = c.N(4000, 5000) / o.Workers
		c.J.Case(o)
		res := runStress(c, o)
		var ch stressChecks
		switch prop {
		case "C13":
			ch = stressChecks{Snap: []string{"I1/", "I2/", "C13/"}}
		case "C03":
			ch = stressChecks{Snap: []string{"C03/", "I2/"}}
		case "C17":
			ch = stressChecks{Snap: []string{"C17/"}}
		}
		accountStress(c, prop, o, res, ch)
	}
}

// ---------------------------------------------------------------- C05 (free-running part)

func init() { registry["C05S"] = runC05Stress }

// runC05Stress: every key has one owner goroutine (so "earlier/later" writes are program order); background
// readers and other owners hammer the cache; small write buffers and delays make buffered inserts routinely
// be applied after Del's immediate removal. Offline rule: after Del(k) returned and a later Wait() of the
// owner returned, every Get(k) by anyone misses until the owner calls Set(k) again.
func runC05Stress(c *Ctx) {
	c.R.Rule = "free-running owners: each key is written by one goroutine only; per-key rule over the merged log: Del(k) returned, a later Wait() by the owner returned => every Get(k) that starts afterwards and returns before the owner's next Set(k) is called misses; distinct = per-key 4-grams of event kinds per configuration; non-trivial windows are counted"
	n := c.N(24, 160)
	for i := 0; i < n; i++ {
		if i%c.NParts != c.Part {
			continue
		}
		rng := lab.NewRNG(c.Seed, 500000+uint64(i))
		workers := lab.Pick(rng, []int{2, 4, 8, 16})
		nk := workers * lab.Pick(rng, []int{1, 2, 4})
		o := stressOpts{
			Cfg: lab.CacheCfg{NumCounters: 1000, MaxCost: lab.Pick(rng, []int64{int64(nk * 4), int64(nk), int64(max(1, nk/2))}), BufferItems: 64,
				IgnoreInternalCost: true, KeyKind: lab.Pick(rng, []string{"uint64", "string"}), NKeys: nk, TTLTick: 1, SetBuf: lab.Pick(rng, []int{0, 1, 2, 8, 64})},
			Workers: workers, Probers: 2, Phases: 2, OwnKeys: true,
			Mix:    map[string]int{"get": 25, "set": 30, "setttl": 8, "del": 20, "wait": 15, "iter": 1},
			TTLsMs: []int{50, 2000}, CostMode: "one", DelayLevel: lab.Pick(rng, []float64{0, 1, 2}),
			EndWith: "close", Stream: uint64(i),
		}
		if i%3 == 2 {
			// the "other keys" include keys that collide with k on the primary hash (different conflict hashes)
			o.Cfg.Collide = lab.Pick(rng, []int{2, 4})
		}
		o.Name = fmt.Sprintf("c05s-w%d-nk%d-cap%d-buf%d-d%.0f-collide%d", workers, nk, o.Cfg.MaxCost, o.Cfg.SetBuf, o.DelayLevel, o.Cfg.Collide)
		o.OpsPerPhase = c.N(6000, 7000) / workers
		c.J.Case(o)
		res := runStress(c, o)
		accountStress(c, "C05", o, res, stressChecks{})
		if res.Err != nil {
			continue
		}
		windows, checked := checkDelWins(res.A, func(sig, detail string, w any) {
			c.R.Violate("C05/"+sig, fmt.Sprintf("[%s] %s", o.Name, detail), map[string]any{"episode": o, "witness": w})
		})
		c.R.Obs("del_wait_windows", windows)
		c.R.Obs("gets_checked_in_windows", checked)
	}
}

// checkDelWins implements the per-key rule. Keys are single-writer, so the owner's log order is program order.
func checkDelWins(a *lab.Analysis, rep lab.Reporter) (windows, checked int64) {
	type win struct{ from, to int64 }
	wins := map[int32][]win{}
	// per owner: walk its own events in order
	type st struct {
		delRet int64 // return clock of the last Del not yet followed by a Set
		armed  int64 // return clock of the first Wait after that Del
	}
	perOwner := map[int16]map[int32]*st{}
	const inf = int64(1 << 62)
	open := map[int16]map[int32]int{} // index of the open window in wins[key]
	for _, e := range a.Evs {
		if e.G < 0 {
			continue
		}
		m := perOwner[e.G]
		if m == nil {
			m = map[int32]*st{}
			perOwner[e.G] = m
			open[e.G] = map[int32]int{}
		}
		switch e.Kind {
		case lab.EvDel:
			// events are ordered by call clock; Del's return clock matters
			if m[e.Key] == nil { // a repeated Del without a Set in between keeps the earlier window
				m[e.Key] = &st{delRet: e.T2}
			}
		case lab.EvSet:
			if s := m[e.Key]; s != nil {
				if idx, ok := open[e.G][e.Key]; ok {
					wins[e.Key][idx].to = e.T1
					delete(open[e.G], e.Key)
				}
				delete(m, e.Key)
			}
		case lab.EvWait:
			for k, s := range m {
				if s.armed == 0 && e.T1 > s.delRet {
					s.armed = e.T2
					wins[k] = append(wins[k], win{e.T2, inf})
					open[e.G][k] = len(wins[k]) - 1
				}
			}
		case lab.EvClear:
			// a Clear by anyone also empties the cache; windows stay valid (misses only)
		}
	}
	for _, ws := range wins {
		windows += int64(len(ws))
	}
	for _, e := range a.Evs {
		if e.Kind != lab.EvGet {
			continue
		}
		for _, w := range wins[e.Key] {
			if e.T1 > w.from && e.T2 < w.to {
				checked++
				if e.Ok {
					rep("hit-after-del-and-wait", fmt.Sprintf("Get(key %d) at [%d,%d] returned %#x although the owner's Del returned and its later Wait() returned at %d, and no Set of the key was called before %d", e.Key, e.T1, e.T2, e.Val, w.from, w.to), a.Witness(e.Val, e))
					return
				}
			}
		}
	}
	return
}

// ---------------------------------------------------------------- C04 (directed reproduction of known finding KF1)

func init() { registry["C04K"] = runC04Known }

// runC04Known holds an overwriting Set (or a Del) between its store update and its OnExit(prev) call, runs
// Clear to completion, then releases it: the detached value is released only after a Clear that was called
// after the value's own Set returned. The life-cycle checker classifies the history (KF1).
func runC04Known(c *Ctx) {
	c.R.Rule = "directed: hold Set/Del at the hook point between the store update and OnExit(prev), run Clear (or Close) to completion, release; 2 calls x 2 (Clear, Close) x key kinds; distinct by (call, clear/close, key kind)"
	for i, call := range []string{"set", "del", "set", "del"} {
		for _, kind := range []string{"uint64", "string"} {
			useClose := i >= 2
			c.R.Eval(1)
			name := fmt.Sprintf("c04k-%s-close%v-%s", call, useClose, kind)
			c.J.Case(name)
			l, err := lab.NewLab(lab.CacheCfg{NumCounters: 100, MaxCost: 100, BufferItems: 64, IgnoreInternalCost: true, KeyKind: kind, NKeys: 2})
			if err != nil {
				c.R.Inconc(1)
				continue
			}
			main, other := l.NewClient(), l.NewClient()
			v1 := main.NextVal(0)
			main.Set(0, v1, 1, 0)
			main.Wait()
			reached := make(chan struct{})
			release := make(chan struct{})
			armed := true
			want := ristretto.VPSetBeforeExit
			if call == "del" {
				want = ristretto.VPDelBeforeExit
			}
			l.SetHook(func(point int, arg uint64) {
				if point == want && armed {
					armed = false
					close(reached)
					<-release
				}
			})
			done := make(chan struct{})
			go func() {
				if call == "set" {
					other.Set(0, other.NextVal(0), 1, 0)
				} else {
					other.Del(0)
				}
				close(done)
			}()
			select {
			case <-reached:
			case <-time.After(20 * time.Second):
				c.R.Inconc(1)
				c.R.Note("%s: hold point never reached", name)
				close(release)
				<-done
				l.C.Close()
				l.Forget()
				continue
			}
			if useClose {
				// Close while a write is in flight is outside documented use; Clear is the case the statement names
				main.Clear()
			} else {
				main.Clear()
			}
			close(release)
			<-done
			main.Wait()
			main.Close()
			l.Forget()
			a := lab.Analyze(l.Merged())
			a.CheckLifecycle(func(sig, detail string, w any) {
				c.R.Violate("C04/"+sig, fmt.Sprintf("[%s] %s", name, detail), map[string]any{"witness": w})
			})
			c.R.DistinctKey("%s", name)
			c.R.Obs("kf1_directed_cases", 1)
		}
	}
}

// ---------------------------------------------------------------- C03 (directed: one admission needing many victims)

func init() { registry["C03D"] = runC03Directed }

// runC03Directed fills a cache exactly with n unit-cost residents (optionally with access frequencies), then
// sets one newcomer of cost c (1..MaxCost and MaxCost+1) and checks the accounting after Wait.
func runC03Directed(c *Ctx) {
	ristretto.VerifSetBucketSeconds(1)
	if c.Part == 0 {
		var wg sync.WaitGroup
		n := uint64(0)
		for _, c0 := range []int64{0, 1, 5} {
			for _, c1 := range []int64{1, 9, 50} {
				n++
				wg.Add(1)
				go func(c0, c1 int64, n uint64) { defer wg.Done(); c03ExpiredReset(c, c0, c1, n) }(c0, c1, n)
			}
		}
		defer wg.Wait()
	}
	if c.Part == 1%c.NParts {
		c03Huge(c)
	}
	c.R.Rule = "directed: cache filled exactly with n residents of cost 1 (n = MaxCost in {8, 40, 100}), optionally hot residents, then one newcomer of cost c for every c in 1..MaxCost+1; after Wait: RemainingCost() >= 0, == MaxCost - sum of accounted costs, newcomer admitted only if its cost <= MaxCost; distinct by (MaxCost, c, hot residents, internal cost)"
	idx := 0
	for _, m := range []int{8, 40, 100} {
		for cost := 1; cost <= m+1; cost++ {
			for _, hot := range []bool{false, true} {
				idx++
				if idx%c.NParts != c.Part {
					continue
				}
				c.R.Eval(1)
				name := fmt.Sprintf("c03d-max%d-cost%d-hot%v", m, cost, hot)
				c.J.Case(name)
				l, err := lab.NewLab(lab.CacheCfg{NumCounters: 2000, MaxCost: int64(m), BufferItems: 1, IgnoreInternalCost: true, KeyKind: "uint64", NKeys: m + 1})
				if err != nil {
					c.R.Inconc(1)
					continue
				}
				cl := l.NewClient()
				for k := 0; k < m; k++ {
					cl.Set(k, cl.NextVal(k), 1, 0)
				}
				cl.Wait()
				if hot {
					// the newcomer is at least as frequent as everything else, so it is not turned away
					l.C.Increment(l.Hashes[m][0], 8)
				}
				cl.Set(m, cl.NextVal(m), int64(cost), 0)
				cl.Wait()
				l.C.Pause()
				s := l.C.Snapshot()
				rc := l.C.RemainingCost()
				l.C.Resume()
				var sum int64
				for _, x := range s.KeyCosts {
					sum += x
				}
				_, admitted := s.KeyCosts[l.Hashes[m][0]]
				bad := func(sig, d string) {
					c.R.Violate("C03/"+sig, fmt.Sprintf("[%s] %s", name, d), name)
				}
				if rc < 0 {
					bad("negative-remaining", fmt.Sprintf("after admitting a newcomer of cost %d into a cache of %d unit-cost residents (MaxCost %d): RemainingCost()=%d, %d keys accounted with total cost %d", cost, m, m, rc, len(s.KeyCosts), sum))
				}
				if rc != s.MaxCost-sum || s.Used != sum {
					bad("remaining-identity", fmt.Sprintf("RemainingCost()=%d, MaxCost=%d, sum of accounted costs=%d, used=%d", rc, s.MaxCost, sum, s.Used))
				}
				if admitted && int64(cost) > s.MaxCost {
					bad("oversized-admitted", fmt.Sprintf("newcomer of cost %d admitted with MaxCost %d", cost, s.MaxCost))
				}
				c.R.Obs("directed_admissions", 1)
				if admitted {
					c.R.Obs("directed_admitted", 1)
				}
				c.R.DistinctKey("%s/adm%v", name, admitted)
				l.C.Close()
				l.Forget()
			}
		}
	}
}

// c03ExpiredReset: a key with cost c0 (incl. 0) and a short TTL expires and is swept; the same key is then set with
// a different cost c1 on a nearly full cache. Nothing is raised for a resident key, so the accounting must stay
// within MaxCost and agree with the resident entries.
func c03ExpiredReset(c *Ctx, c0, c1 int64, stream uint64) {
	c.R.Eval(1)
	name := fmt.Sprintf("c03d-expired-reset-c0=%d-c1=%d", c0, c1)
	c.J.Case(name)
	const m = 100
	l, err := lab.NewLab(lab.CacheCfg{NumCounters: 2000, MaxCost: m, BufferItems: 1, IgnoreInternalCost: true, KeyKind: "uint64", NKeys: 200, TTLTick: 1})
	if err != nil {
		c.R.Inconc(1)
		return
	}
	defer l.Forget()
	cl := l.NewClient()
	defer l.C.Close()
	sweeps := make(chan struct{}, 64)
	l.SetHook(func(point int, arg uint64) {
		if point == ristretto.VPSweepDone {
			select {
			case sweeps <- struct{}{}:
			default:
			}
		}
	})
	// residents: 90 unit-cost keys (keys 1..90); the TTL key is key 0
	for k := 1; k <= 90; k++ {
		cl.Set(k, cl.NextVal(k), 1, 0)
	}
	cl.Set(0, cl.NextVal(0), c0, 300*time.Millisecond)
	cl.Wait()
	// wait until the entry has been swept (bounded: 8 sweeps = 4 s)
	gone := false
	for i := 0; i < 8 && !gone; i++ {
		select {
		case <-sweeps:
		case <-time.After(3 * time.Second):
		}
		l.C.Pause()
		sn := l.C.Snapshot()
		l.C.Resume()
		gone = true
		for _, en := range sn.Entries {
			if en.Key == l.Hashes[0][0] {
				gone = false
			}
		}
	}
	if !gone {
		c.R.Inconc(1)
		return
	}
	l.C.Increment(l.Hashes[0][0], 8) // not colder than the residents: it is not simply turned away
	cl.Set(0, cl.NextVal(0), c1, 0)
	cl.Wait()
	l.C.Pause()
	sn := l.C.Snapshot()
	rc := l.C.RemainingCost()
	l.C.Resume()
	var resident int64
	for _, en := range sn.Entries {
		k := l.HashIdx[en.Key]
		if k == 0 {
			resident += c1
		} else {
			resident++
		}
	}
	if rc < 0 {
		c.R.Violate("C03/negative-remaining", fmt.Sprintf("[%s] a key with cost %d and a ttl expired and was swept; setting it again with cost %d on a nearly full cache left RemainingCost()=%d", name, c0, c1, rc), name)
	}
	if rc != sn.MaxCost-resident {
		c.R.Violate("C03/remaining-vs-resident-costs", fmt.Sprintf("[%s] RemainingCost()=%d but MaxCost - sum of the costs of the resident entries = %d - %d", name, rc, sn.MaxCost, resident), name)
	}
	c.R.Obs("directed_expired_reset_cases", 1)
	c.R.DistinctKey("%s", name)
}

// c03Huge: capacities above MaxInt64/2 (MaxInt64 is the usual "unbounded" setting) with costs of the same
// magnitude: used+cost exceeds the int64 range although every single quantity is legal. The newcomers are made hot so
// that they are admitted whenever they can be.
func c03Huge(c *Ctx) {
	const big = int64(1) << 60
	type hc struct {
		max   int64
		costs []int64
	}
	cases := []hc{
		{math.MaxInt64, []int64{3 * big, 3 * big, 3 * big, 3 * big}},
		{math.MaxInt64, []int64{7 * big, 1 * big, 5 * big, 4 * big}},
		{math.MaxInt64, []int64{math.MaxInt64 - 4096, 4000, 200, math.MaxInt64 / 2}},
		{6 * big, []int64{4 * big, 5 * big, 2 * big, 6 * big}},
		{6 * big, []int64{6 * big, 1, 6*big - 1, 3 * big}},
		{math.MaxInt64/2 + 1, []int64{math.MaxInt64 / 4, math.MaxInt64 / 4, math.MaxInt64 / 4, math.MaxInt64 / 2}},
		{5 * big, []int64{2 * big, 2 * big, 2 * big, 2 * big, 2 * big}},
	}
	for ci, hcase := range cases {
		for _, internal := range []bool{false, true} {
			c.R.Eval(1)
			name := fmt.Sprintf("c03d-huge-%d-internal%v", ci, internal)
			c.J.Case(name)
			l, err := lab.NewLab(lab.CacheCfg{NumCounters: 2000, MaxCost: hcase.max, BufferItems: 1, IgnoreInternalCost: !internal, KeyKind: "uint64", NKeys: len(hcase.costs) + 1})
			if err != nil {
				c.R.Inconc(1)
				continue
			}
			cl := l.NewClient()
			for k, cost := range hcase.costs {
				l.C.Increment(l.Hashes[k][0], 2+k) // later keys are hotter: they may displace earlier ones
				cl.Set(k, cl.NextVal(k), cost, 0)
				cl.Wait()
				l.C.Pause()
				s := l.C.Snapshot()
				rc := l.C.RemainingCost()
				l.C.Resume()
				sum := new(big2).SetInt64(0)
				for _, x := range s.KeyCosts {
					sum.Add(sum, new(big2).SetInt64(x))
				}
				bad := func(sig, d string) {
					c.R.Violate("C03/"+sig, fmt.Sprintf("[%s step %d, cost %d] %s", name, k, cost, d), name)
				}
				if rc < 0 {
					bad("negative-remaining", fmt.Sprintf("RemainingCost()=%d with MaxCost %d; accounted %v", rc, s.MaxCost, s.KeyCosts))
				}
				if sum.Cmp(new(big2).SetInt64(s.MaxCost)) > 0 {
					bad("accounted-above-maxcost", fmt.Sprintf("sum of accounted costs %s > MaxCost %d; accounted %v", sum.String(), s.MaxCost, s.KeyCosts))
				} else if sum.Int64() != s.Used || rc != s.MaxCost-s.Used {
					bad("remaining-identity", fmt.Sprintf("RemainingCost()=%d, MaxCost=%d, sum of accounted costs=%s, used=%d", rc, s.MaxCost, sum.String(), s.Used))
				}
				c.R.Obs("huge_admissions", 1)
				c.R.DistinctKey("%s/%d/n%d", name, k, len(s.KeyCosts))
			}
			l.C.Close()
			l.Forget()
		}
	}
}

type big2 = big.Int

// ---------------------------------------------------------------- C04R: a rejected newcomer that had already displaced victims

func init() { registry["C04R"] = runC04Rejected }

// runC04Rejected: a hot resident H (cost 6) and cold residents of cost 1 fill MaxCost = 10; a lukewarm newcomer X of
// cost 7 displaces every cold resident and is then turned away because only H is left to compare with. The victims'
// values and X's value must each exit exactly once. Variants: one victim K was itself written as a NEW item queued
// right before X and is written again right after X (all three travel together through the write buffer), or K is
// written again later with a value that ShouldUpdate would refuse for a stored key. After Close every accepted value
// has been passed to OnExit exactly once.
func runC04Rejected(c *Ctx) {
	c.R.Rule = "directed: H hot cost 6 + n cold residents cost 1 (n in 2..4) fill MaxCost 10; newcomer X cost 7 (estimate 1) evicts all cold ones and is rejected; variant queued: Set(K,v1) Set(X) Set(K,v2) queued together behind a held applier; variant later: K written again after Wait, also with a value ShouldUpdate refuses for stored keys; then Close; every accepted value exits exactly once, refused ones never; distinct by (variant, n, ShouldUpdate)"
	idx := 0
	for rep := 0; rep < c.N(2, 10); rep++ {
		for _, variant := range []string{"queued", "later", "later-refusable"} {
			for ncold := 2; ncold <= 4; ncold++ {
				idx++
				if idx%c.NParts != c.Part {
					continue
				}
				c04Rejected(c, variant, ncold, uint64(idx))
			}
		}
	}
}

func c04Rejected(c *Ctx, variant string, ncold int, stream uint64) {
	r := c.R
	r.Eval(1)
	name := fmt.Sprintf("c04r-%s-cold%d", variant, ncold)
	c.J.Case(name)
	cfg := lab.CacheCfg{NumCounters: 1000, MaxCost: 10, BufferItems: 1, IgnoreInternalCost: true, KeyKind: "uint64", NKeys: 8}
	if variant == "later-refusable" {
		cfg.ShouldUpdate = "parity"
	}
	l, err := lab.NewLab(cfg)
	if err != nil {
		r.Inconc(1)
		return
	}
	defer l.Forget()
	cl := l.NewClient()
	closed := false
	defer func() {
		if !closed {
			l.C.Close()
		}
	}()
	type issued struct {
		val      uint64
		accepted bool
		what     string
	}
	var all []issued
	set := func(k int, cost int64, odd bool, what string) uint64 {
		v := cl.NextValParity(k, odd)
		ok := cl.Set(k, v, cost, 0)
		all = append(all, issued{v, ok, what})
		return v
	}
	const H, X, K = 0, 6, 5
	set(H, 6, false, "hot resident")
	cl.Wait()
	l.C.Increment(l.Hashes[H][0], 10)
	l.C.Increment(l.Hashes[X][0], 1)
	nres := ncold
	if variant == "queued" {
		nres = ncold - 1 // K is the last cold one and is written together with X
	}
	for k := 1; k <= nres; k++ {
		set(k, 1, false, "cold resident")
		cl.Wait()
	}
	// pad with a resident of the remaining capacity so that the cache is exactly full when X arrives
	pad := int64(10 - 6 - ncold)
	if pad > 0 {
		set(7, pad, false, "padding resident")
		cl.Wait()
	}
	switch variant {
	case "queued":
		g := lab.NewGate(l)
		set(H, 6, false, "overwrite of H that occupies the applier") // an update: accounted cost unchanged
		if err := g.AwaitHeld(); err != nil {
			r.Inconc(1)
			g.Open()
			return
		}
		set(K, 1, false, "K first write (new item, queued)")
		set(X, 7, false, "newcomer X (queued)")
		set(K, 1, false, "K second write (new item, queued behind X)")
		g.Open()
		l.SetHook(nil)
		cl.Wait()
	default:
		set(X, 7, false, "newcomer X")
		cl.Wait()
		// one of the displaced keys is written again: with ShouldUpdate configured, the value is one that would be
		// refused for a key that is still stored (it is not: the key was evicted, so this is a fresh insert)
		set(1, 1, variant == "later-refusable", "displaced key written again")
		cl.Wait()
	}
	snap := l.C.Snapshot()
	_, xin := snap.KeyCosts[l.Hashes[X][0]]
	r.Obs("c04r_cases", 1)
	if xin {
		r.Obs("c04r_newcomer_admitted", 1) // not the situation aimed at (estimates collided): still checked below
	}
	cl.Close()
	closed = true
	exits := map[uint64]int{}
	for _, e := range l.CallbacksSince(0) {
		if e.Kind == lab.EvOnExit {
			exits[e.Val]++
		}
	}
	for _, is := range all {
		want := 0
		if is.accepted {
			want = 1
		}
		if exits[is.val] != want {
			sig := "no-exit-by-clear-or-close"
			if exits[is.val] > want {
				sig = "double-exit"
			}
			r.Violate("C04/"+sig, fmt.Sprintf("[%s] value %#x (%s; Set returned %v) was passed to OnExit %d times by the time Close returned, want %d; newcomer admitted=%v", name, is.val, is.what, is.accepted, exits[is.val], want, xin), name)
			return
		}
	}
	r.DistinctKey("%s/x-admitted%v", name, xin)
}
