package main

// C07 — items are never served after their TTL has elapsed. Interval checker
// with sound wall-time brackets: the harness reads t0 before and t1 after
// SetWithTTL, so the expiration E lies in [t0+ttl, t1+ttl]; an observation
// that started after t1+ttl must not yield the item, one that finished before
// t0+ttl must not be hidden by the TTL, anything in between is inconclusive.
// Many scripted caches run in parallel (they mostly sleep).

import (
	"fmt"
	"sort"
	"strings"
	"sync"
	"time"

	ristretto "github.com/dgraph-io/ristretto/v2"
	"verif/harness/lab"
)

func init() { registry["C07"] = runC07 }

type c07Step struct {
	AtMs int    `json:"at_ms"`
	Op   string `json:"op"` // set, del, get, getttl, iter
	TTL  int    `json:"ttl_ms,omitempty"`
}

type c07Script struct {
	Name  string    `json:"name"`
	Steps []c07Step `json:"steps"`
	Late  int       `json:"late_apply_hold_ms,omitempty"` // hold the applier this long with the first insert unapplied
	Trace []string  `json:"trace,omitempty"`
}

func c07Obs(at ...int) []c07Step {
	var s []c07Step
	for i, a := range at {
		s = append(s, c07Step{AtMs: a, Op: []string{"get", "getttl", "iter"}[i%3]})
	}
	return s
}

func c07Scripts(rng *lab.RNG) []c07Script {
	var out []c07Script
	add := func(name string, steps ...[]c07Step) {
		var all []c07Step
		for _, s := range steps {
			all = append(all, s...)
		}
		out = append(out, c07Script{Name: name, Steps: all})
	}
	set := func(at, ttl int) []c07Step { return []c07Step{{AtMs: at, Op: "set", TTL: ttl}} }
	del := func(at int) []c07Step { return []c07Step{{AtMs: at, Op: "del"}} }
	j := func() int { return rng.Intn(15) }
	for _, ttl := range []int{1, 5, 30, 120, 400} {
		t := ttl
		add(fmt.Sprintf("single-ttl%d", t), set(0, t), c07Obs(t/3, t/2, t/2+1), c07Obs(t+5+j(), t+40, t+300, t+700+j(), t+1300, t+2300))
	}
	add("no-ttl", set(0, 0), c07Obs(5, 50, 600, 1700))
	// ttls of centuries ("forever" sentinels): now+ttl still fits the clock, so the item must simply stay
	const y250ms = 250 * 365 * 24 * 3600 * 1000
	add("huge-ttl", set(0, y250ms), c07Obs(5, 50, 600, 1700))
	add("huge-ttl-over-short", set(0, 40), set(20, y250ms), c07Obs(30, 100, 600, 1700))
	add("huge-ttl-over-none", set(0, 0), set(20, y250ms), c07Obs(30, 100, 600, 1700))
	add("negative-ttl", set(0, 300), set(20, -50), c07Obs(40, 60, 100), c07Obs(330+j(), 900))
	add("negative-ttl-on-empty", set(0, -1), c07Obs(10, 30, 50))
	add("longer", set(0, 100), set(30+j(), 500), c07Obs(140, 200, 300), c07Obs(560+j(), 700, 1700))
	add("shorter", set(0, 600), set(30+j(), 60), c07Obs(50, 60, 70), c07Obs(120+j(), 300, 700, 1800))
	add("ttl-to-none", set(0, 80), set(20+j(), 0), c07Obs(120, 300, 1300, 2300))
	add("none-to-ttl", set(0, 0), set(50, 100), c07Obs(80, 100, 120), c07Obs(170+j(), 500, 1600))
	add("del-reinsert", set(0, 100), del(30), set(50+j(), 400), c07Obs(150, 250, 300), c07Obs(480+j(), 1500))
	add("same-ttl-refresh", set(0, 150), set(100+j(), 150), c07Obs(180, 200, 220), c07Obs(290+j(), 600))
	add("three-rewrites", set(0, 50), set(20, 300), set(100+j(), 40), set(120, 0), c07Obs(200, 400, 1500), set(1600, 30), c07Obs(1610, 1615), c07Obs(1660+j(), 2800))
	// an insert applied so late that the sweep frontier has passed its bucket, then re-written without / with a later
	// TTL: the re-written item must not be hidden by whatever the index still holds for the old expiration
	out = append(out, c07Script{Name: "late-apply-then-none", Late: 2300, Steps: append(append(set(0, 50), set(2400, 0)...), c07Obs(2450, 3500, 4600, 5700)...)})
	out = append(out, c07Script{Name: "late-apply-then-short", Late: 2300, Steps: append(append(set(0, 50), set(2400, 900)...), append(c07Obs(2450, 2700, 3000, 3150, 3250), c07Obs(3400+j(), 4600)...)...)})
	out = append(out, c07Script{Name: "late-apply-then-later", Late: 2300, Steps: append(append(set(0, 50), set(2400, 3000)...), append(c07Obs(2450, 3500, 4600), c07Obs(5500+j(), 6600)...)...)})
	for _, hold := range []int{80, 400, 1300} {
		out = append(out, c07Script{Name: fmt.Sprintf("late-apply-hold%d", hold), Late: hold, Steps: append(set(0, 50), c07Obs(hold+10, hold+20, hold+30)...)})
		out = append(out, c07Script{Name: fmt.Sprintf("late-apply-alive-hold%d", hold), Late: hold, Steps: append(set(0, hold+800), append(c07Obs(hold+10, hold+20, hold+30), c07Obs(2*hold+900, 2*hold+1500)...)...)})
	}
	return out
}

func runC07(c *Ctx) {
	r := c.R
	r.Rule = "scripted per-key histories (single ttl 1..400 ms, no ttl, negative ttl, ttl replaced by longer/shorter/none, delete+re-insert, refresh, insert applied late with the applier held past the expiry) with observations by Get/GetTTL/IterValues before, around and after the expiration and before/after the sweep; each observation is judged with sound wall-time brackets; distinct by (script, step, observer, region in {must-hit, must-miss, band}); non-trivial when the region is must-hit or must-miss"
	ristretto.VerifSetBucketSeconds(1) // sweeps every 0.5 s, 1-second buckets: expired entries meet the sweep within the scripts
	rounds := c.N(4, 24)
	for round := 0; round < rounds; round++ {
		rng := c.rng(700 + uint64(round))
		var scripts []c07Script
		for cp := 0; cp < c.N(6, 10); cp++ {
			// copies with a different time scale (ttl and offsets scaled together) and fresh jitter
			scale := []float64{1, 0.5, 0.75, 1.5, 2, 1.25}[cp%6]
			for _, sc := range c07Scripts(rng) {
				if scale != 1 && !strings.HasPrefix(sc.Name, "late-apply-then") {
					sc.Name = fmt.Sprintf("%s@x%.2f", sc.Name, scale)
					steps := append([]c07Step(nil), sc.Steps...)
					for i := range steps {
						steps[i].AtMs = int(float64(steps[i].AtMs) * scale)
						if steps[i].TTL > 0 && steps[i].TTL < 1<<40 { // the century-sized ttls are not scaled (they must fit a Duration)
							steps[i].TTL = max(1, int(float64(steps[i].TTL)*scale))
						}
					}
					sc.Steps = steps
					sc.Late = int(float64(sc.Late) * scale)
				}
				scripts = append(scripts, sc)
			}
		}
		var wg sync.WaitGroup
		for i := range scripts {
			if (i+round)%c.NParts != c.Part {
				continue
			}
			wg.Add(1)
			go func(s c07Script, stream uint64) {
				defer wg.Done()
				c07Run(c, s, stream)
			}(scripts[i], uint64(round*1000+i))
		}
		wg.Wait()
	}
}

type c07Write struct {
	kind   string // "set" or "del"
	ttl    time.Duration
	t0, t1 time.Time
	val    uint64
}

func c07Run(c *Ctx, s c07Script, stream uint64) {
	r := c.R
	r.Eval(1)
	c.J.Case(s)
	cfg := lab.CacheCfg{NumCounters: 100, MaxCost: 1000, BufferItems: 64, IgnoreInternalCost: true, KeyKind: "uint64", NKeys: 2, TTLTick: 1}
	l, err := lab.NewLab(cfg)
	if err != nil {
		r.Inconc(1)
		return
	}
	defer l.Forget()
	cl := l.NewClient()
	defer l.C.Close()
	var gate *lab.Gate
	var trace []string
	var tmu sync.Mutex
	tr := func(f string, a ...any) {
		tmu.Lock()
		trace = append(trace, fmt.Sprintf(f, a...))
		tmu.Unlock()
	}
	fail := func(sig, d string) {
		cs := s
		cs.Trace = append([]string(nil), trace...)
		r.Violate("C07/"+sig, fmt.Sprintf("[%s] %s", s.Name, d), cs)
	}
	// control key without TTL: residency is never lost in these episodes
	ctl := cl.NextVal(1)
	cl.Set(1, ctl, 1, 0)
	cl.Wait()
	start := time.Now()
	var last *c07Write
	negVals := map[uint64]bool{}
	maxTTL := time.Duration(0)
	first := true
	for si, st := range s.Steps {
		if d := time.Until(start.Add(time.Duration(st.AtMs) * time.Millisecond)); d > 0 {
			time.Sleep(d)
		}
		switch st.Op {
		case "set":
			ttl := time.Duration(st.TTL) * time.Millisecond
			v := cl.NextVal(0)
			n0 := l.NumCallbacks()
			w := &c07Write{kind: "set", ttl: ttl, val: v}
			if s.Late > 0 && first && ttl >= 0 {
				gate = lab.NewGate(l)
				defer gate.Open()
				if s.Late >= 2000 {
					// the applier is held on an item of the control key, so the scripted insert waits in the write
					// buffer: when the applier is released, a sweep may run before the insert is applied
					ctl = cl.NextVal(1)
					cl.Set(1, ctl, 1, 0)
					if err := gate.AwaitHeld(); err != nil {
						r.Inconc(1)
						return
					}
				}
			}
			w.t0 = time.Now()
			ok := cl.Set(0, v, 1, ttl)
			w.t1 = time.Now()
			tr("+%dms SetWithTTL(ttl=%v)=%v val=%#x", time.Since(start).Milliseconds(), ttl, ok, v)
			if ttl < 0 {
				negVals[v] = true
				if ok {
					fail("negative-ttl-accepted", "SetWithTTL with a negative ttl returned true")
					return
				}
				cl.Wait()
				for _, e := range l.CallbacksSince(n0) {
					if e.Val == v {
						fail("negative-ttl-callback", fmt.Sprintf("value written with a negative ttl was passed to %s", lab.EvNames[int(e.Kind)]))
						return
					}
				}
				continue
			}
			if !ok {
				r.Inconc(1)
				return
			}
			if ttl > maxTTL {
				maxTTL = ttl
			}
			if s.Late > 0 && first {
				// the insert sits in the applier's hand; hold it past the expiry, then let it be applied
				if err := gate.AwaitHeld(); err != nil {
					r.Inconc(1)
					return
				}
				time.Sleep(time.Duration(s.Late) * time.Millisecond)
				gate.Open()
				tr("+%dms applier released after holding the insert %d ms", time.Since(start).Milliseconds(), s.Late)
			}
			first = false
			cl.Wait()
			last = w
		case "del":
			cl.Del(0)
			cl.Wait()
			last = &c07Write{kind: "del"}
			tr("+%dms Del", time.Since(start).Milliseconds())
		default:
			if last == nil {
				// nothing (valid) written yet: nothing may be found
				if v, ok := cl.Get(0); ok {
					fail("phantom", fmt.Sprintf("Get found %#x although nothing was stored", v))
					return
				}
				continue
			}
			g0 := time.Now()
			var hit bool
			var val uint64
			var d time.Duration
			switch st.Op {
			case "get":
				val, hit = cl.Get(0)
			case "getttl":
				d, hit = cl.GetTTL(0)
				if hit {
					val = last.val
				}
			case "iter":
				for _, v := range cl.IterValues(-1) {
					if lab.ValKey(v) == 0 {
						hit, val = true, v
					}
				}
			}
			g1 := time.Now()
			tr("+%dms %s -> hit=%v val=%#x ttl=%v", g1.Sub(start).Milliseconds(), st.Op, hit, val, d)
			if hit && negVals[val] {
				fail("negative-ttl-stored", fmt.Sprintf("%s returned %#x which was written with a negative ttl", st.Op, val))
				return
			}
			if last.kind == "del" {
				continue
			}
			region := "band"
			switch {
			case last.ttl == 0:
				region = "must-hit"
			case g0.After(last.t1.Add(last.ttl)):
				region = "must-miss"
			case g1.Before(last.t0.Add(last.ttl)):
				region = "must-hit"
			}
			r.Obs("observations_"+region, 1)
			if region != "band" {
				r.DistinctKey("%s/%d/%s/%s", s.Name, si, st.Op, region)
			} else {
				r.Inconc(0)
			}
			switch region {
			case "must-miss":
				if hit {
					fail("served-after-expiry/"+st.Op, fmt.Sprintf("%s that started %v after the latest possible expiration (ttl %v) still yielded the item", st.Op, g0.Sub(last.t1.Add(last.ttl)), last.ttl))
					return
				}
			case "must-hit":
				if !hit {
					fail("hidden-before-expiry/"+st.Op, fmt.Sprintf("%s that finished %v before the earliest possible expiration (ttl %v) did not yield the item", st.Op, last.t0.Add(last.ttl).Sub(g1), last.ttl))
					return
				}
				if st.Op != "getttl" && val != last.val {
					fail("wrong-value", fmt.Sprintf("%s returned %#x, the last write stored %#x", st.Op, val, last.val))
					return
				}
			}
			if st.Op == "getttl" && hit {
				if last.ttl == 0 && d != 0 {
					fail("getttl-for-no-ttl", fmt.Sprintf("GetTTL reports %v for an item written with ttl=0", d))
					return
				}
				if last.ttl > 0 && d > last.ttl {
					fail("getttl-exceeds-ttl", fmt.Sprintf("GetTTL reports %v remaining for an item written with ttl %v", d, last.ttl))
					return
				}
				if last.ttl > 0 && d <= 0 && region == "must-hit" {
					fail("getttl-nonpositive", fmt.Sprintf("GetTTL found the item but reports %v remaining", d))
					return
				}
			}
		}
	}
	// the control key must still be there: nothing but the TTL may hide items in these episodes
	if v, ok := cl.Get(1); !ok || v != ctl {
		fail("control-key-lost", "the control key written without TTL is no longer retrievable")
		return
	}
	r.Sample(3, map[string]any{"script": s.Name, "trace": trace})
}

// c07Dropped: writes WITH a ttl are dropped because the write buffer is full (SetWithTTL returns false); writes
// WITHOUT a ttl issued right afterwards - updates of resident keys while the buffer is still full, then fresh keys
// once it has drained - must never expire: GetTTL == (0, true), and they stay retrievable long after the dropped
// writes' expiration would have passed (ample capacity).
func c07Dropped(c *Ctx, setbuf int, stream uint64) {
	r := c.R
	r.Eval(1)
	name := fmt.Sprintf("c07-dropped-ttl-writes-buf%d", setbuf)
	c.J.Case(name)
	const nres, nfresh, ndrop = 4, 4, 8
	cfg := lab.CacheCfg{NumCounters: 1000, MaxCost: 1000, BufferItems: 64, IgnoreInternalCost: true, KeyKind: "uint64", NKeys: nres + nfresh + ndrop + 1, TTLTick: 1, SetBuf: setbuf}
	l, err := lab.NewLab(cfg)
	if err != nil {
		r.Inconc(1)
		return
	}
	defer l.Forget()
	defer l.C.Close()
	cl := l.NewClient()
	fail := func(sig, d string) { r.Violate("C07/"+sig, fmt.Sprintf("[%s] %s", name, d), name) }
	for k := 0; k < nres; k++ {
		cl.Set(k, cl.NextVal(k), 1, 0)
	}
	ctlKey := cfg.NKeys - 1
	cl.Set(ctlKey, cl.NextVal(ctlKey), 1, 0)
	cl.Wait()
	gate := lab.NewGate(l)
	defer gate.Open()
	cl.Set(ctlKey, cl.NextVal(ctlKey), 1, 0)
	if err := gate.AwaitHeld(); err != nil {
		r.Inconc(1)
		return
	}
	// fill the buffer with updates of the control key (an update that does not fit is dropped silently)
	for i := 0; i < setbuf+2; i++ {
		cl.Set(ctlKey, cl.NextVal(ctlKey), 1, 0)
	}
	const ttl = 300 * time.Millisecond
	want := map[int]uint64{}
	dropped := 0
	for i := 0; i < ndrop; i++ {
		dk := nres + nfresh + i
		if !cl.Set(dk, cl.NextVal(dk), 1, ttl) {
			dropped++
		}
		// a resident key re-written without ttl right after the dropped write (applied to the store at once)
		k := i % nres
		v := cl.NextVal(k)
		if cl.Set(k, v, 1, 0) {
			want[k] = v
		}
	}
	r.Obs("c07_dropped_ttl_writes", int64(dropped))
	if dropped == 0 {
		r.Inconc(1)
		return
	}
	tDrop := time.Now()
	check := func(when string, keys []int) bool {
		for _, k := range keys {
			v, ok := cl.Get(k)
			if !ok || v != want[k] {
				fail("hidden-without-ttl/get", fmt.Sprintf("%s: Get(key %d) = (%#x, %v), want (%#x, true): written without a ttl after %d writes with ttl %v had been dropped on a full write buffer", when, k, v, ok, want[k], dropped, ttl))
				return false
			}
			if d, ok := cl.GetTTL(k); !ok || d != 0 {
				fail("ttl-on-item-without-ttl", fmt.Sprintf("%s: GetTTL(key %d) = (%v, %v), want (0, true): written without a ttl after %d writes with ttl %v had been dropped", when, k, d, ok, dropped, ttl))
				return false
			}
			r.Obs("c07_no_ttl_observations", 1)
		}
		return true
	}
	var res []int
	for k := range want {
		res = append(res, k)
	}
	sort.Ints(res)
	if !check("buffer still full", res) {
		return
	}
	gate.Open()
	cl.Wait()
	for i := 0; i < nfresh; i++ {
		// again a dropped-size burst is not needed: the envelopes of the dropped writes are what matters
		k := nres + i
		v := cl.NextVal(k)
		if cl.Set(k, v, 1, 0) {
			want[k] = v
			res = append(res, k)
		}
	}
	cl.Wait()
	if !check("after the buffer drained", res) {
		return
	}
	time.Sleep(time.Until(tDrop.Add(ttl + 250*time.Millisecond)))
	if !check("after the dropped writes' ttl has elapsed", res) {
		return
	}
	n := len(cl.IterValues(-1))
	if n < len(res) {
		fail("hidden-without-ttl/iter", fmt.Sprintf("IterValues yields %d values, %d keys without ttl are resident", n, len(res)))
	}
	r.DistinctKey("%s/dropped%d/res%d", name, min(dropped, 3), len(res))
}

// c07ReaderRace: entries whose short ttl has elapsed but which no sweep has collected yet are read by several
// goroutines while another goroutine re-writes each of them WITHOUT a ttl. A reader may miss (before the re-write) or
// hit the new value; once the re-write has returned and the writes have drained, the new value - which never
// expires - must be retrievable (ample capacity): a ttl that belonged to the previous value must not hide it.
func c07ReaderRace(c *Ctx, readers int, stream uint64) {
	r := c.R
	r.Eval(1)
	name := fmt.Sprintf("c07-readers-vs-rewrite-of-expired-r%d", readers)
	c.J.Case(name)
	const nk = 512
	l, err := lab.NewLab(lab.CacheCfg{NumCounters: 10000, MaxCost: 1 << 20, BufferItems: 64, IgnoreInternalCost: true, KeyKind: "uint64", NKeys: nk, TTLTick: 1})
	if err != nil {
		r.Inconc(1)
		return
	}
	defer l.Forget()
	defer l.C.Close()
	w := l.NewClient()
	rcl := make([]*lab.Client, readers)
	for i := range rcl {
		rcl[i] = l.NewClient()
	}
	for k := 0; k < nk; k++ {
		w.Set(k, w.NextVal(k), 1, 5*time.Millisecond)
	}
	w.Wait()
	time.Sleep(15 * time.Millisecond) // all expired now; the next sweep of their bucket is 1-2 s away
	want := make([]uint64, nk)
	var wg sync.WaitGroup
	start := make(chan struct{})
	for i := range rcl {
		wg.Add(1)
		go func(cl *lab.Client, off int) {
			defer wg.Done()
			<-start
			for j := 0; j < nk; j++ {
				cl.Get((j + off) % nk)
				cl.Get((j + off) % nk)
			}
		}(rcl[i], i*3)
	}
	wg.Add(1)
	go func() {
		defer wg.Done()
		<-start
		for k := 0; k < nk; k++ {
			v := w.NextVal(k)
			if w.Set(k, v, 1, 0) {
				want[k] = v
			}
		}
	}()
	close(start)
	wg.Wait()
	w.Wait()
	for k := 0; k < nk; k++ {
		if want[k] == 0 {
			continue
		}
		r.Obs("c07_rewrites_of_expired_entries_checked", 1)
		v, ok := w.Get(k)
		if !ok || v != want[k] {
			r.Violate("C07/hidden-without-ttl/get", fmt.Sprintf("[%s] key %d had an expired, not yet collected entry; it was re-written without ttl (Set returned true) while %d goroutines were reading it; after Wait Get = (%#x, %v), want (%#x, true)", name, k, readers, v, ok, want[k]), name)
			return
		}
		if d, ok := w.GetTTL(k); !ok || d != 0 {
			r.Violate("C07/ttl-on-item-without-ttl", fmt.Sprintf("[%s] key %d re-written without ttl: GetTTL = (%v, %v), want (0, true)", name, k, d, ok), name)
			return
		}
	}
	r.DistinctKey("%s", name)
}
