package main

// C09 — admission and eviction follow the TinyLFU / sampled-LFU discipline.
// Online decision monitor: the verifSampled hook reports the inputs of every
// eviction decision under the policy mutex; the monitor recomputes every
// estimate, the minimum and the expected branch independently, then matches
// the observable outcome (OnEvict order, OnReject, admission, accounting). A
// black-box layer (valid for any sampling scheme) checks the statement's
// clauses directly.

import (
	"fmt"
	"sort"
	"sync"

	ristretto "github.com/dgraph-io/ristretto/v2"
	"verif/harness/lab"
)

func init() { registry["C09"] = runC09 }

type c09Iter struct {
	Key        uint64   `json:"incoming_hash"`
	IncHits    int64    `json:"incoming_estimate"`
	Sample     []uint64 `json:"sample"`
	SampleEst  []int64  `json:"sample_estimates"`
	SampleCost []int64  `json:"sample_costs"`
	MinKey     uint64   `json:"min_key"`
	MinHits    int64    `json:"min_estimate"`
	IncRecomp  int64    `json:"incoming_estimate_recomputed"`
}

type c09Mon struct {
	mu      sync.Mutex
	owner   any
	iters   []c09Iter
	estAll  map[uint64]int64 // estimates of all pre-resident keys + incoming at the first decision of this Add
	preKeys []uint64
	incKey  uint64
}

var c09cur *c09Mon

func c09Hook(owner any, key uint64, incHits int64, keys []uint64, costs []int64, minKey uint64, minHits int64, est func(uint64) int64) {
	m := c09cur
	if m == nil || owner != m.owner {
		return
	}
	m.mu.Lock()
	defer m.mu.Unlock()
	it := c09Iter{Key: key, IncHits: incHits, Sample: keys, SampleCost: costs, MinKey: minKey, MinHits: minHits}
	if est != nil {
		it.IncRecomp = est(key)
		for _, k := range keys {
			it.SampleEst = append(it.SampleEst, est(k))
		}
		if m.estAll == nil {
			m.estAll = map[uint64]int64{key: est(key)}
			for _, k := range m.preKeys {
				m.estAll[k] = est(k)
			}
		}
	}
	m.iters = append(m.iters, it)
}

type c09Case struct {
	Name     string  `json:"name"`
	Stream   uint64  `json:"stream"`
	MaxCost  int64   `json:"max_cost"`
	Costs    []int64 `json:"resident_costs"`
	Freqs    []int   `json:"resident_frequencies"`
	IncKey   int     `json:"incoming_key"`
	IncCost  int64   `json:"incoming_cost"`
	IncFreq  int     `json:"incoming_frequency"`
	IncClass string  `json:"incoming_class"`
	RealGets bool    `json:"frequencies_via_gets"`
	KeyZero  bool    `json:"key_zero,omitempty"` // resident 0 is the key 0 (primary hash 0)
	Detail   any     `json:"decision,omitempty"`
}

func runC09(c *Ctx) {
	r := c.R
	r.Rule = "decisions = (resident population 1..40, cost assignment, access-frequency assignment incl. ties/0/saturated, incoming (key,cost) class in {fits-exactly, exceeds-by-1, needs-k-victims, larger-than-MaxCost, already-resident}) x the runtime's map iteration order (each configuration repeated); the monitor recomputes estimates/minimum/branch under the policy mutex and matches callbacks and accounting; distinct by (population size, incoming class, outcome, number of victims, sample as a sorted set)"
	ristretto.VerifSetSampledHook(c09Hook)
	n := c.N(12000, 120000)
	for i := 0; i < n; i++ {
		if i%c.NParts != c.Part {
			continue
		}
		rng := lab.NewRNG(c.Seed, 900000+uint64(i/3)) // each configuration is repeated 3 times: different map orders
		cs := c09Case{Stream: uint64(i)}
		npop := lab.Pick(rng, []int{1, 1, 2, 3, 5, 6, 8, 12, 20, 40})
		costDist := rng.Intn(3)
		var sum int64
		for k := 0; k < npop; k++ {
			var cost int64
			switch costDist {
			case 0:
				cost = 3
			case 1:
				cost = 1
				if k == 0 {
					cost = 30 // one giant
				}
			default:
				cost = int64(1 + rng.Intn(6))
			}
			cs.Costs = append(cs.Costs, cost)
			sum += cost
			f := lab.Pick(rng, []int{0, 0, 1, 1, 2, 3, 5, 8, 15, 20})
			if rng.Chance(0.3) {
				f = 2 // ties
			}
			cs.Freqs = append(cs.Freqs, f)
		}
		slack := int64(rng.Intn(3))
		cs.MaxCost = sum + slack
		cs.IncFreq = lab.Pick(rng, []int{0, 1, 2, 2, 3, 6, 16})
		cs.IncKey = npop
		switch rng.Intn(10) {
		case 0:
			cs.IncClass, cs.IncCost = "fits-exactly", slack
			if slack == 0 {
				cs.IncClass, cs.IncCost = "exceeds-by-1", 1
			}
		case 1, 2:
			cs.IncClass, cs.IncCost = "exceeds-by-1", slack+1
		case 3, 4, 5, 6:
			cs.IncClass, cs.IncCost = "needs-k-victims", slack+int64(1+rng.Intn(int(min(sum, 12))))
		case 7:
			cs.IncClass, cs.IncCost = "larger-than-maxcost", cs.MaxCost+1
		case 8:
			if rng.Chance(0.5) {
				cs.IncClass, cs.IncCost, cs.IncKey = "already-resident", int64(1+rng.Intn(4)), rng.Intn(npop)
			} else {
				// two Sets of a new key before either is applied: the second finds the key resident in the policy
				cs.IncClass, cs.IncCost = "duplicate-pending", 0
				if slack > 0 {
					cs.IncCost = 1 + int64(rng.Intn(int(slack)))
				} else {
					cs.IncClass, cs.IncCost = "exceeds-by-1", 1
				}
			}
		default:
			cs.IncClass, cs.IncCost = "fits", 0
			if slack > 0 {
				cs.IncCost = 1 + int64(rng.Intn(int(slack)))
			} else {
				cs.IncClass, cs.IncCost = "exceeds-by-1", 1
			}
		}
		if cs.IncCost > cs.MaxCost && cs.IncClass != "larger-than-maxcost" {
			cs.IncCost = cs.MaxCost
		}
		cs.RealGets = i%5 == 4
		cs.KeyZero = (i/3)%2 == 1
		cs.Name = fmt.Sprintf("c09-pop%d-%s", npop, cs.IncClass)
		c.J.Case(cs)
		c09One(c, rng, cs)
		if i%200 == 0 {
			c.J.Rewind()
		}
	}
}

func c09One(c *Ctx, rng *lab.RNG, cs c09Case) {
	r := c.R
	r.Eval(1)
	npop := len(cs.Costs)
	cfg := lab.CacheCfg{NumCounters: 2000, MaxCost: cs.MaxCost, BufferItems: 1, IgnoreInternalCost: true, KeyKind: "uint64", NKeys: npop + 2, KeyZero: cs.KeyZero}
	l, err := lab.NewLab(cfg)
	if err != nil {
		r.Inconc(1)
		return
	}
	defer l.Forget()
	cl := l.NewClient()
	defer l.C.Close()
	fail := func(sig, d string, detail any) {
		cs.Detail = detail
		r.Violate("C09/"+sig, fmt.Sprintf("[%s] %s", cs.Name, d), cs)
	}
	// populate: everything fits by construction
	vals := map[int]uint64{}
	for k := 0; k < npop; k++ {
		v := cl.NextVal(k)
		if !cl.Set(k, v, cs.Costs[k], 0) {
			r.Inconc(1)
			return
		}
		cl.Wait()
		vals[k] = v
	}
	// in a quarter of the cases some residents are first overwritten with a LOWER cost: the capacity they give back
	// is capacity a newcomer may use without evicting anything
	if cs.Stream%4 == 1 {
		for k := 0; k < npop && k < 3; k++ {
			if cs.Costs[k] > 1 {
				nv := cl.NextVal(k)
				cl.Set(k, nv, cs.Costs[k]-1, 0)
				cl.Wait()
				vals[k] = nv
				cs.Costs[k]--
				if cs.IncClass == "fits" || cs.IncClass == "fits-exactly" {
					cs.IncCost++ // still fits: the freed unit is usable
				}
			}
		}
		r.Obs("decisions_after_cost_lowering_overwrites", 1)
	}
	// In a quarter of the cases the monitored decision is not the first contested one on this cache: an extra hot key
	// is admitted against the full population (one victim), removed again, the victim is put back, and one other
	// resident is deleted for good. Whatever the policy kept from that earlier decision must not leak into this one.
	expPop := npop
	if cs.Stream%4 == 3 && npop >= 3 && cs.IncClass != "duplicate-pending" && cs.IncClass != "already-resident" {
		x := npop + 1
		l.C.Increment(l.Hashes[x][0], 10)
		c0 := l.NumCallbacks()
		cl.Set(x, cl.NextVal(x), cs.MaxCost-pre0Used(l)+1, 0)
		cl.Wait()
		var victims []int
		for _, e := range l.CallbacksSince(c0) {
			if e.Kind == lab.EvOnEvict {
				victims = append(victims, lab.ValKey(e.Val))
			}
		}
		cl.Del(x)
		cl.Wait()
		for _, k := range victims {
			if k < npop {
				nv := cl.NextVal(k)
				cl.Set(k, nv, cs.Costs[k], 0)
				cl.Wait()
				vals[k] = nv
			}
		}
		d := rng.Intn(npop)
		cl.Del(d)
		cl.Wait()
		delete(vals, d)
		expPop = npop - 1
		r.Obs("decisions_after_an_earlier_contested_decision", 1)
	}
	n0 := l.NumCallbacks()
	pre := l.C.Snapshot()
	var accounted int64
	for _, x := range pre.KeyCosts {
		accounted += x
	}
	if len(pre.KeyCosts) != expPop {
		// a fitting newcomer was not admitted: first clause of the statement
		fail("fitting-newcomer-not-admitted", fmt.Sprintf("populating %d keys with total cost %d <= MaxCost %d left %d resident (expected %d)", npop, pre.Used, cs.MaxCost, len(pre.KeyCosts), expPop), nil)
		return
	}
	// frequencies
	for k := 0; k < npop; k++ {
		if cs.RealGets {
			for j := 0; j < cs.Freqs[k]; j++ {
				cl.Get(k)
			}
		} else if cs.Freqs[k] > 0 {
			l.C.Increment(l.Hashes[k][0], cs.Freqs[k])
		}
	}
	incHash := l.Hashes[cs.IncKey][0]
	if cs.IncFreq > 0 {
		l.C.Increment(incHash, cs.IncFreq)
	}
	mon := &c09Mon{owner: l.C.Owner(), incKey: incHash}
	for h := range pre.KeyCosts {
		mon.preKeys = append(mon.preKeys, h)
	}
	c09cur = mon
	v := cl.NextVal(cs.IncKey)
	wasResident := cs.IncClass == "already-resident"
	var dupVal uint64
	if cs.IncClass == "duplicate-pending" {
		// hold the applier so that both Sets of the new key travel as new items
		g := lab.NewGate(l)
		hold := cl.NextVal(0)
		cl.Set(0, hold, cs.Costs[0], 0) // an overwrite of resident key 0 with its own cost: occupies the applier's hand
		vals[0] = hold
		if err := g.AwaitHeld(); err != nil {
			r.Inconc(1)
			g.Open()
			return
		}
		first := cl.Set(cs.IncKey, v, cs.IncCost, 0)
		dupVal = cl.NextVal(cs.IncKey)
		second := cl.Set(cs.IncKey, dupVal, cs.IncCost, 0)
		g.Open()
		l.SetHook(nil)
		cl.Wait()
		c09cur = nil
		if !first || !second {
			r.Inconc(1)
			return
		}
		post := l.C.Snapshot()
		var rej, rejExit, firstCb int
		for _, e := range l.CallbacksSince(n0) {
			if e.Val == dupVal && e.Kind == lab.EvOnReject {
				rej++
			}
			if e.Val == dupVal && e.Kind == lab.EvOnExit {
				rejExit++
			}
			if e.Val == v && (e.Kind == lab.EvOnReject || e.Kind == lab.EvOnEvict) {
				firstCb++
			}
		}
		_, adm := post.KeyCosts[incHash]
		r.Obs("decisions", 1)
		r.DistinctKey("%d/duplicate-pending/adm%v", npop, adm)
		got, hit := cl.Get(cs.IncKey)
		if !adm || firstCb != 0 || !hit || got != v {
			fail("fitting-newcomer-not-admitted-cleanly", fmt.Sprintf("first of two pending Sets of a fitting new key: admitted=%v callbacks=%d Get=(%#x,%v)", adm, firstCb, got, hit), nil)
			return
		}
		if rej != 1 || rejExit != 1 {
			fail("rejection-not-reported", fmt.Sprintf("second pending Set of a key that is resident by then: OnReject=%d OnExit=%d (want 1 and 1)", rej, rejExit), nil)
		}
		return
	}
	// In a fifth of the decisions accesses of the newcomer's key are recorded concurrently (they need the policy
	// mutex, so they cannot fall inside a decision): the estimate a decision uses must be the one valid under
	// the mutex at that moment, which the hook recomputes.
	stopInc := make(chan struct{})
	incDone := make(chan struct{})
	if cs.Stream%5 == 2 {
		go func() {
			defer close(incDone)
			for i := 0; i < 200000; i++ {
				select {
				case <-stopInc:
					return
				default:
				}
				l.C.Increment(incHash, 1)
			}
		}()
		r.Obs("decisions_with_concurrent_accesses", 1)
	} else {
		close(incDone)
	}
	ok := cl.Set(cs.IncKey, v, cs.IncCost, 0)
	cl.Wait()
	close(stopInc)
	<-incDone
	c09cur = nil
	post := l.C.Snapshot()
	cbs := l.CallbacksSince(n0)
	mon.mu.Lock()
	iters := mon.iters
	est := mon.estAll
	mon.mu.Unlock()
	if !ok {
		r.Inconc(1)
		return
	}
	var evicted []uint64 // key hashes in callback order
	rejected, rejectedVal := false, uint64(0)
	exits := map[uint64]int{}
	for _, e := range cbs {
		switch e.Kind {
		case lab.EvOnEvict:
			evicted = append(evicted, l.Hashes[lab.ValKey(e.Val)][0])
			if vals[lab.ValKey(e.Val)] != e.Val {
				fail("evicted-unknown-value", fmt.Sprintf("OnEvict reported %#x which is not the resident value of its key", e.Val), nil)
			}
		case lab.EvOnReject:
			rejected, rejectedVal = true, e.Val
		case lab.EvOnExit:
			exits[e.Val]++
		}
	}
	_, admitted := post.KeyCosts[incHash]
	if wasResident {
		// an overwrite: the store was updated synchronously and the item travels as an update; no decision is taken
		admitted = true
	}
	detail := map[string]any{"iterations": iters, "evicted": evicted, "rejected": rejected, "admitted": admitted, "used_before": pre.Used, "used_after": post.Used}
	outcome := "admitted"
	if rejected {
		outcome = "rejected"
	}
	sampleKey := ""
	if len(iters) > 0 {
		s := append([]uint64(nil), iters[0].Sample...)
		sort.Slice(s, func(i, j int) bool { return s[i] < s[j] })
		sampleKey = fmt.Sprint(s)
	}
	r.DistinctKey("%d/%s/%s/v%d/%s", npop, cs.IncClass, outcome, len(evicted), sampleKey)
	r.Obs("decisions", 1)
	r.Obs("decision_iterations", int64(len(iters)))
	r.Obs("outcome_"+outcome, 1)
	r.Obs("victims", int64(len(evicted)))

	// ---- black-box clauses of the statement
	// "fits in the remaining capacity" is judged from the costs the cache accounts for its resident keys
	fits := !wasResident && cs.IncCost <= cs.MaxCost && accounted+cs.IncCost <= pre.MaxCost
	if fits {
		if !admitted || len(evicted) > 0 || rejected {
			fail("fitting-newcomer-not-admitted-cleanly", fmt.Sprintf("newcomer with cost %d fits (used %d of %d) but admitted=%v victims=%d rejected=%v", cs.IncCost, pre.Used, pre.MaxCost, admitted, len(evicted), rejected), detail)
			return
		}
		if len(iters) > 0 {
			fail("sampling-although-room", "eviction candidates were sampled although the newcomer fits", detail)
			return
		}
	}
	if cs.IncClass == "larger-than-maxcost" {
		if admitted || len(evicted) > 0 {
			fail("oversized-admitted-or-evicting", fmt.Sprintf("item with cost %d > MaxCost %d: admitted=%v victims=%d", cs.IncCost, cs.MaxCost, admitted, len(evicted)), detail)
			return
		}
		if !rejected || rejectedVal != v {
			fail("rejection-not-reported", "oversized item was turned away without OnReject", detail)
			return
		}
	}
	if !wasResident && !admitted && !(rejected && rejectedVal == v) {
		fail("rejection-not-reported", "newcomer was not admitted and not reported through OnReject", detail)
		return
	}
	if rejected && exits[v] != 1 {
		fail("rejection-not-reported", fmt.Sprintf("rejected value passed to OnExit %d times", exits[v]), detail)
		return
	}
	if admitted && rejected && !wasResident {
		fail("admitted-and-rejected", "newcomer is accounted as resident and was reported through OnReject", detail)
		return
	}
	if !wasResident && cs.IncClass != "larger-than-maxcost" && !fits {
		if len(iters) == 0 || est == nil {
			fail("no-decision-observed", "room had to be made but the decision hook never fired", detail)
			return
		}
		inc := est[incHash]
		for _, h := range evicted {
			if est[h] > inc {
				fail("victim-more-frequent-than-newcomer", fmt.Sprintf("evicted key %#x has estimate %d > newcomer's %d", h, est[h], inc), detail)
				return
			}
		}
		if rejected {
			found := false
			for h := range pre.KeyCosts {
				if est[h] > inc {
					found = true
				}
			}
			if !found {
				fail("rejected-although-not-less-frequent", fmt.Sprintf("newcomer (estimate %d) was rejected although no resident key has a strictly higher estimate", inc), detail)
				return
			}
		}
		if len(pre.KeyCosts) == 1 {
			// one candidate: the outcome is fully determined
			var only uint64
			for h := range pre.KeyCosts {
				only = h
			}
			wantReject := inc < est[only]
			if wantReject != rejected {
				fail("single-candidate-outcome", fmt.Sprintf("single resident (estimate %d) vs newcomer (estimate %d): rejected=%v", est[only], inc, rejected), detail)
				return
			}
		}
		if admitted && post.Used > post.MaxCost {
			fail("admission-over-capacity", fmt.Sprintf("after the admission used=%d > MaxCost=%d", post.Used, post.MaxCost), detail)
			return
		}
	}
	// ---- decision monitor (white-box, per loop iteration)
	gone := map[uint64]bool{}
	var wantVictims []uint64
	for i, it := range iters {
		if it.Key != incHash {
			fail("decision-for-other-key", fmt.Sprintf("decision iteration %d is for key %#x, incoming is %#x", i, it.Key, incHash), detail)
			return
		}
		if it.IncHits != it.IncRecomp {
			fail("incoming-estimate-wrong", fmt.Sprintf("iteration %d used estimate %d for the newcomer, recomputed %d", i, it.IncHits, it.IncRecomp), detail)
			return
		}
		if len(it.Sample) == 0 {
			fail("empty-sample", fmt.Sprintf("iteration %d compared against an empty sample", i), detail)
			return
		}
		min := int64(1 << 62)
		for j, k := range it.Sample {
			cost, wasRes := pre.KeyCosts[k]
			if !wasRes {
				fail("sample-not-resident", fmt.Sprintf("iteration %d sampled key %#x which was not resident", i, k), detail)
				return
			}
			if cost != it.SampleCost[j] {
				fail("sample-cost-wrong", fmt.Sprintf("iteration %d sampled key %#x with cost %d, accounted %d", i, k, it.SampleCost[j], cost), detail)
				return
			}
			if it.SampleEst[j] < min {
				min = it.SampleEst[j]
			}
		}
		if it.MinHits != min {
			fail("minimum-wrong", fmt.Sprintf("iteration %d: chosen minimum estimate %d, recomputed minimum of the sample %d", i, it.MinHits, min), detail)
			return
		}
		okMin := false
		for j, k := range it.Sample {
			if k == it.MinKey && it.SampleEst[j] == min {
				okMin = true
			}
		}
		if !okMin {
			fail("victim-not-least-frequent", fmt.Sprintf("iteration %d: candidate %#x chosen although it does not have the minimum estimate %d of the sample", i, it.MinKey, min), detail)
			return
		}
		if it.IncHits < it.MinHits {
			// must be the last iteration and end in rejection
			if i != len(iters)-1 || !rejected {
				fail("branch-wrong", fmt.Sprintf("iteration %d: newcomer estimate %d < minimum %d but the decision went on (rejected=%v)", i, it.IncHits, it.MinHits, rejected), detail)
				return
			}
		} else {
			if !gone[it.MinKey] {
				wantVictims = append(wantVictims, it.MinKey)
			}
			gone[it.MinKey] = true
			if i == len(iters)-1 && rejected {
				fail("branch-wrong", fmt.Sprintf("newcomer estimate %d >= minimum %d in the last iteration but it was rejected", it.IncHits, it.MinHits), detail)
				return
			}
		}
	}
	if len(iters) > 0 {
		if fmt.Sprint(wantVictims) != fmt.Sprint(evicted) {
			fail("victims-mismatch", fmt.Sprintf("decisions chose victims %x, OnEvict reported %x", wantVictims, evicted), detail)
			return
		}
		for _, h := range evicted {
			if _, still := post.KeyCosts[h]; still {
				fail("victim-still-accounted", fmt.Sprintf("victim %#x is still accounted after the eviction", h), detail)
				return
			}
		}
	}
	r.Sample(4, map[string]any{"case": cs.Name, "max_cost": cs.MaxCost, "incoming_cost": cs.IncCost, "outcome": outcome, "victims": len(evicted), "iterations": len(iters)})
}

func pre0Used(l *lab.Lab) int64 { return l.C.Snapshot().Used }
