// vwork runs one property workload in a child process and writes a JSON
// result. It is started by /verif/check.py; see DESIGN.md section 3.2.
package main

import (
	"flag"
	"fmt"
	"os"
	"runtime"
	"runtime/debug"
	"sort"
	"time"

	"verif/harness/lab"
)

// Ctx is what a property workload gets.
type Ctx struct {
	Tier   string
	Seed   int64
	Part   int
	NParts int
	Arg    string
	TmpDir string
	R      *lab.Result
	Out    string
	J      *lab.Journal
}

func (c *Ctx) Thorough() bool { return c.Tier == "thorough" }

// N picks a case count by tier.
func (c *Ctx) N(quick, thorough int) int {
	if c.Thorough() {
		return thorough
	}
	return quick
}

var registry = map[string]func(*Ctx){}

func main() {
	var (
		tier    = flag.String("tier", "quick", "quick|thorough")
		seed    = flag.Int64("seed", 1, "PRNG seed")
		part    = flag.Int("part", 0, "part index")
		nparts  = flag.Int("nparts", 1, "number of parts")
		out     = flag.String("out", "", "result file")
		journal = flag.String("journal", "", "journal file")
		arg     = flag.String("arg", "", "workload-specific argument")
		tmp     = flag.String("tmp", "", "scratch directory")
		procs   = flag.Int("procs", 0, "GOMAXPROCS (0 = default)")
	)
	flag.Parse()
	if flag.NArg() != 1 {
		var names []string
		for k := range registry {
			names = append(names, k)
		}
		sort.Strings(names)
		fmt.Fprintln(os.Stderr, "usage: vwork [flags] <workload>; workloads:", names)
		os.Exit(2)
	}
	name := flag.Arg(0)
	f, ok := registry[name]
	if !ok {
		fmt.Fprintln(os.Stderr, "unknown workload", name)
		os.Exit(2)
	}
	if *procs > 0 {
		runtime.GOMAXPROCS(*procs)
	}
	debug.SetTraceback("all")
	if *tmp == "" {
		d, err := os.MkdirTemp("", "vwork")
		if err != nil {
			panic(err)
		}
		*tmp = d
		defer os.RemoveAll(d)
	}
	c := &Ctx{Tier: *tier, Seed: *seed, Part: *part, NParts: *nparts, Arg: *arg, TmpDir: *tmp, Out: *out,
		R: lab.NewResult(name, fmt.Sprintf("%d/%d:%s", *part, *nparts, *arg), *seed), J: lab.OpenJournal(*journal)}
	t0 := time.Now()
	canary := lab.NewWatchdog(1, 1000*time.Hour, func(string, bool, string) {})
	f(c)
	c.R.Obs("child_wall_ms", time.Since(t0).Milliseconds())
	c.R.ObsMax("process_canary_max_late_ms", canary.MaxLateMs())
	// Verdicts whose only evidence is "it did not happen within N seconds" are not believed from a process whose
	// own canary goroutine was scheduled more than a second late at some point: they become inconclusive.
	if late := canary.MaxLateMs(); late > 1000 {
		c.R.DemoteTimeoutVerdicts(late)
	}
	if *out != "" {
		if err := c.R.Write(*out); err != nil {
			fmt.Fprintln(os.Stderr, "write result:", err)
			os.Exit(2)
		}
	}
	if c.R.NumViolations() > 0 {
		os.Exit(3)
	}
}

func (c *Ctx) rng(stream uint64) *lab.RNG {
	return lab.NewRNG(c.Seed, stream*4096+uint64(c.Part))
}
