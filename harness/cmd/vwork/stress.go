package main

// Free-running concurrent stress episodes with the shared monitors: event log
// (unique values, one logical clock), delay injection at hook points and in
// callbacks, quiescent-point snapshots. Used by C01 C02 C03 C04 C13 C17.

import (
	"fmt"
	"sort"
	"sync"
	"sync/atomic"
	"time"

	ristretto "github.com/dgraph-io/ristretto/v2"
	"verif/harness/lab"
)

type stressOpts struct {
	Name           string         `json:"name"`
	Cfg            lab.CacheCfg   `json:"cfg"`
	Workers        int            `json:"workers"`
	Probers        int            `json:"probers"`
	OpsPerPhase    int            `json:"ops_per_phase"`
	Phases         int            `json:"phases"`
	Mix            map[string]int `json:"mix"` // weights: get set setttl del getttl iter wait clear maxcost
	TTLsMs         []int          `json:"ttls_ms,omitempty"`
	CostMode       string         `json:"cost_mode"` // "one", "key" (fixed per key), "random" (may raise), "zero" (Config.Cost)
	MaxCostRaise   bool           `json:"max_cost_raise,omitempty"`
	DelayLevel     float64        `json:"delay_level"`
	OwnKeys        bool           `json:"own_keys,omitempty"` // each worker writes only its own keys
	ClearAtBarrier bool           `json:"clear_at_barrier,omitempty"`
	EndWith        string         `json:"end_with"` // "close", "clear"
	Stream         uint64         `json:"stream"`
	Quiesce        bool           `json:"quiesce"`               // take snapshots at barriers
	FinalDrain     string         `json:"final_drain,omitempty"` // "", "del", "expire", "clear": empty-cache clause of C13
}

type snapFinding struct {
	Sig, Detail string
	W           any
}

type stressResult struct {
	A                 *lab.Analysis
	L                 *lab.Lab
	Snaps             int
	Findings          []snapFinding
	Gets              int64 // Get calls completed since creation
	RaiseSeen         bool
	NegativeRemaining int64
	Delays            int64
	Err               error
}

func costFor(o *stressOpts, rng *lab.RNG, key int) int64 {
	switch o.CostMode {
	case "one":
		return 1
	case "key":
		return lab.KeyCost(key)
	case "keyskew":
		return lab.KeyCostSkew(key)
	case "zero":
		return 0
	case "random":
		return int64(rng.Intn(20))
	}
	return 1
}

// runStress executes one episode. check(quiescent) is called at every barrier with the lab paused.
func runStress(c *Ctx, o stressOpts) *stressResult {
	res := &stressResult{}
	l, err := lab.NewLab(o.Cfg)
	if err != nil {
		res.Err = err
		return res
	}
	res.L = l
	defer l.Forget()
	delayer := lab.NewDelayer(uint64(c.Seed)*7919+o.Stream, o.DelayLevel)
	if o.DelayLevel > 0 {
		l.CbDelay = func(int) { delayer.Maybe() }
		l.SetHook(func(point int, arg uint64) { delayer.Maybe() })
	}
	nk := o.Cfg.NKeys
	total := 0
	var keys []string
	for k := range o.Mix {
		keys = append(keys, k)
	}
	sort.Strings(keys)
	for _, k := range keys {
		total += o.Mix[k]
	}
	pickOp := func(rng *lab.RNG) string {
		x := rng.Intn(total)
		for _, k := range keys {
			if x < o.Mix[k] {
				return k
			}
			x -= o.Mix[k]
		}
		return "get"
	}
	wd := lab.NewWatchdog(o.Workers+o.Probers+2, 120*time.Second, lab.HangInconclusive(c.R, c.Out))
	defer wd.Stop()
	clients := make([]*lab.Client, o.Workers+o.Probers+1)
	for i := range clients {
		clients[i] = l.NewClient()
	}
	main := clients[len(clients)-1]
	var getsSinceClear atomic.Int64
	var getsTotal atomic.Int64
	var setsFalse atomic.Int64 // Sets that returned false with ttl >= 0 (open cache) since the last Clear
	var stopProbers atomic.Bool
	var negRemaining atomic.Int64

	for phase := 0; phase < o.Phases; phase++ {
		var wg sync.WaitGroup
		stopProbers.Store(false)
		for w := 0; w < o.Workers; w++ {
			wg.Add(1)
			go func(w int) {
				defer wg.Done()
				cl := clients[w]
				rng := lab.NewRNG(c.Seed, o.Stream*1000003+uint64(phase)*1009+uint64(w))
				for i := 0; i < o.OpsPerPhase; i++ {
					k := rng.Intn(nk)
					wk := k
					if o.OwnKeys {
						wk = (k/o.Workers)*o.Workers + w
						if wk >= nk {
							wk = w % nk
						}
					}
					op := pickOp(rng)
					wd.Enter(w, op+" in "+o.Name)
					switch op {
					case "get":
						cl.Get(k)
						getsSinceClear.Add(1)
						getsTotal.Add(1)
					case "set":
						if !cl.Set(wk, cl.NextVal(wk), costFor(&o, rng, wk), 0) {
							setsFalse.Add(1)
						}
					case "setttl":
						ttl := time.Duration(o.TTLsMs[rng.Intn(len(o.TTLsMs))]) * time.Millisecond
						if !cl.Set(wk, cl.NextVal(wk), costFor(&o, rng, wk), ttl) && ttl >= 0 {
							setsFalse.Add(1)
						}
					case "del":
						cl.Del(wk)
					case "getttl":
						cl.GetTTL(k)
					case "iter":
						stop := -1
						if rng.Chance(0.5) {
							stop = rng.Intn(4) + 1
						}
						cl.IterValues(stop)
					case "wait":
						cl.Wait()
					case "clear":
						cl.Clear()
					case "maxcost":
						if o.MaxCostRaise {
							cl.UpdateMaxCost(l.C.MaxCost() + int64(rng.Intn(3)))
						}
					}
					wd.Leave(w)
				}
			}(w)
		}
		var pwg sync.WaitGroup
		for p := 0; p < o.Probers; p++ {
			pwg.Add(1)
			go func(p int) {
				defer pwg.Done()
				cl := clients[o.Workers+p]
				rng := lab.NewRNG(c.Seed, o.Stream*1000003+uint64(phase)*1009+500+uint64(p))
				for !stopProbers.Load() {
					if p == 0 && o.CostMode != "random" && !o.MaxCostRaise {
						// continuous sampler for C03: RemainingCost takes the policy mutex
						if rc := l.C.RemainingCost(); rc < 0 {
							negRemaining.Add(1)
						}
					}
					k := rng.Intn(min(nk, 4))
					for j := 0; j < 8; j++ {
						cl.Get(k)
						getsSinceClear.Add(1)
						getsTotal.Add(1)
					}
					if len(cl.Log) > 400000 {
						return
					}
				}
			}(p)
		}
		wg.Wait()
		stopProbers.Store(true)
		pwg.Wait()

		if o.Quiesce {
			wd.Enter(o.Workers+o.Probers, "Wait/Pause at a barrier in "+o.Name)
			main.Wait()
			l.C.Pause()
			wd.Leave(o.Workers + o.Probers)
			res.Snaps++
			fs := checkQuiescent(l, &o, getsSinceClear.Load(), getsTotal.Load(), setsFalse.Load(), main)
			res.Findings = append(res.Findings, fs...)
			l.C.Resume()
		}
		if o.ClearAtBarrier && phase%2 == 1 && phase != o.Phases-1 {
			main.Clear()
			getsSinceClear.Store(0)
			setsFalse.Store(0)
			if o.Quiesce {
				l.C.Pause()
				fs := checkQuiescent(l, &o, 0, getsTotal.Load(), 0, main)
				for i := range fs {
					fs[i].Sig += "/after-clear"
				}
				res.Findings = append(res.Findings, fs...)
				l.C.Resume()
			}
		}
	}

	// empty-cache clause (C13): delete / expire / clear everything, then RemainingCost == MaxCost and nothing is enumerated
	if o.FinalDrain != "" {
		res.Findings = append(res.Findings, finalDrain(l, &o, main)...)
	}

	wd.Enter(o.Workers+o.Probers, "final Wait/Clear/Close in "+o.Name)
	defer wd.Leave(o.Workers + o.Probers)
	main.Wait()
	switch o.EndWith {
	case "clear":
		main.Clear()
		main.Close()
	default:
		main.Close()
	}
	res.Gets = getsTotal.Load()
	res.NegativeRemaining = negRemaining.Load()
	res.Delays = delayer.Count.Load()
	res.A = lab.Analyze(l.Merged())
	return res
}

// checkQuiescent asserts the snapshot invariants. The applier is paused, no client call is in flight.
func checkQuiescent(l *lab.Lab, o *stressOpts, getsSinceClear, getsTotal, setsFalse int64, main *lab.Client) (out []snapFinding) {
	add := func(sig, detail string, w any) { out = append(out, snapFinding{sig, detail, w}) }
	s := l.C.Snapshot()
	if s.SetBufLen != 0 {
		add("harness/buffer-not-drained", fmt.Sprintf("setBuf holds %d items at a quiescent point", s.SetBufLen), nil)
		return
	}
	var sum int64
	for _, c := range s.KeyCosts {
		sum += c
	}
	// I2 / C03 identity
	if s.Used != sum {
		add("I2/used-vs-sum", fmt.Sprintf("policy used=%d but the costs of its %d keys sum to %d", s.Used, len(s.KeyCosts), sum), nil)
	}
	rc := l.C.RemainingCost()
	if rc != s.MaxCost-s.Used {
		add("C03/remaining-identity", fmt.Sprintf("RemainingCost()=%d, MaxCost-used=%d-%d", rc, s.MaxCost, s.Used), nil)
	}
	if l.C.MaxCost() != s.MaxCost {
		add("C03/maxcost", fmt.Sprintf("MaxCost()=%d snapshot %d", l.C.MaxCost(), s.MaxCost), nil)
	}
	noRaise := o.CostMode != "random" && !o.MaxCostRaise
	if noRaise {
		if rc < 0 {
			add("C03/negative-remaining", fmt.Sprintf("RemainingCost()=%d at a drained point in a history without cost-raising overwrites (MaxCost=%d used=%d keys=%d)", rc, s.MaxCost, s.Used, len(s.KeyCosts)), nil)
		}
		for k, c := range s.KeyCosts {
			if c > s.MaxCost {
				add("C03/oversized-admitted", fmt.Sprintf("key hash %#x is accounted with cost %d > MaxCost %d", k, c, s.MaxCost), nil)
				break
			}
		}
		if o.CostMode == "key" || o.CostMode == "one" || o.CostMode == "zero" || o.CostMode == "keyskew" {
			// shadow accounting: every accounted key's cost must be the fixed cost of that key (+ internal overhead)
			for h, c := range s.KeyCosts {
				ki, ok := l.HashIdx[h]
				if !ok {
					add("I1/unknown-key-in-policy", fmt.Sprintf("policy accounts key hash %#x which is not one of the keys used", h), nil)
					break
				}
				want := int64(1)
				if o.CostMode == "key" || o.CostMode == "zero" {
					want = lab.KeyCost(ki)
				}
				if o.CostMode == "keyskew" {
					want = lab.KeyCostSkew(ki)
				}
				if !o.Cfg.IgnoreInternalCost {
					want += ristretto.VerifItemSize()
				}
				if c != want {
					add("C03/shadow-cost", fmt.Sprintf("key %d is accounted with cost %d, its fixed cost is %d", ki, c, want), nil)
					break
				}
			}
		}
	}
	// C03, black-box form: RemainingCost() == MaxCost - sum of the (fixed) costs of the resident ENTRIES
	if noRaise && o.Cfg.Collide == 0 && (o.CostMode == "key" || o.CostMode == "one" || o.CostMode == "zero" || o.CostMode == "keyskew") {
		var resident int64
		for _, e := range s.Entries {
			ki := l.HashIdx[e.Key]
			want := int64(1)
			switch o.CostMode {
			case "key", "zero":
				want = lab.KeyCost(ki)
			case "keyskew":
				want = lab.KeyCostSkew(ki)
			}
			if !o.Cfg.IgnoreInternalCost {
				want += ristretto.VerifItemSize()
			}
			resident += want
		}
		if rc != s.MaxCost-resident {
			add("C03/remaining-vs-resident-costs", fmt.Sprintf("RemainingCost()=%d but MaxCost - sum of the costs of the %d resident entries = %d - %d", rc, len(s.Entries), s.MaxCost, resident), nil)
		}
	}
	// I1: policy keys == map keys (collision-free key sets only)
	if o.Cfg.Collide == 0 {
		inMap := map[uint64]struct{}{}
		for _, e := range s.Entries {
			if _, dup := inMap[e.Key]; dup {
				add("I1/duplicate-entry", fmt.Sprintf("key hash %#x stored twice", e.Key), nil)
			}
			inMap[e.Key] = struct{}{}
			if _, ok := s.KeyCosts[e.Key]; !ok {
				add("I1/stored-but-not-accounted", fmt.Sprintf("key %d (hash %#x, value %#x) is in the map but the capacity accounting does not know it: it can never be evicted", l.HashIdx[e.Key], e.Key, e.Value), nil)
				break
			}
		}
		for h, c := range s.KeyCosts {
			if _, ok := inMap[h]; !ok {
				add("I1/accounted-but-not-stored", fmt.Sprintf("capacity accounting charges %d for key %d (hash %#x) which is not in the map", c, l.HashIdx[h], h), nil)
				break
			}
		}
	}
	// IterValues vs snapshot (unexpired resident values, each exactly once), with a band for entries about to expire
	ta := time.Now()
	vals := main.IterValues(-1)
	tb := time.Now()
	seen := map[uint64]int{}
	for _, v := range vals {
		seen[v]++
		if seen[v] == 2 {
			add("C13/iter-duplicate", fmt.Sprintf("IterValues yielded %#x twice", v), nil)
		}
	}
	must, may := map[uint64]struct{}{}, map[uint64]struct{}{}
	for _, e := range s.Entries {
		switch {
		case e.Expiration.IsZero() || e.Expiration.After(tb.Add(2*time.Millisecond)):
			must[e.Value] = struct{}{}
		case e.Expiration.Before(ta.Add(-2 * time.Millisecond)):
		default:
			may[e.Value] = struct{}{}
		}
	}
	for v := range must {
		if seen[v] == 0 {
			add("C13/iter-missing", fmt.Sprintf("IterValues omitted the unexpired resident value %#x (key %d)", v, lab.ValKey(v)), nil)
			break
		}
	}
	for v := range seen {
		_, a := must[v]
		_, b := may[v]
		if !a && !b {
			add("C13/iter-phantom", fmt.Sprintf("IterValues yielded %#x which is expired or not resident", v), nil)
			break
		}
	}
	// early stop
	if len(must) >= 3 {
		got := main.IterValues(2)
		if len(got) != 2 {
			add("C13/iter-stop", fmt.Sprintf("IterValues asked to stop after 2 values yielded %d", len(got)), nil)
		}
	}
	// C17 conservation laws
	if m := l.C.Metrics(); m != nil {
		concurrentClear := o.Mix["clear"] > 0 // then "since the last Clear" is not well defined for these two laws
		if hm := int64(m.Hits() + m.Misses()); hm != getsSinceClear && !concurrentClear {
			add("C17/hits-plus-misses", fmt.Sprintf("Hits+Misses=%d but %d Get calls completed since creation/the last Clear", hm, getsSinceClear), nil)
		}
		// "resident" is what the map holds (the capacity accounting agreeing with the map is C13's business)
		if d := int64(m.KeysAdded() - m.KeysEvicted()); d != int64(len(s.Entries)) {
			add("C17/keys-added-minus-evicted", fmt.Sprintf("KeysAdded-KeysEvicted=%d-%d=%d but %d keys are resident in the map (%d accounted by the policy)", m.KeysAdded(), m.KeysEvicted(), d, len(s.Entries), len(s.KeyCosts)), nil)
		}
		if d := int64(m.CostAdded() - m.CostEvicted()); d != s.MaxCost-rc {
			add("C17/cost-added-minus-evicted", fmt.Sprintf("CostAdded-CostEvicted=%d but MaxCost-RemainingCost=%d", d, s.MaxCost-rc), nil)
		}
		if sd := int64(m.SetsDropped()); sd != setsFalse && !concurrentClear {
			add("C17/sets-dropped", fmt.Sprintf("SetsDropped=%d but %d Sets returned false", sd, setsFalse), nil)
		}
		if kd := int64(m.GetsKept() + m.GetsDropped()); kd > getsTotal {
			add("C17/gets-kept-plus-dropped", fmt.Sprintf("GetsKept+GetsDropped=%d exceeds the %d Gets issued", kd, getsTotal), nil)
		}
	}
	return
}

// finalDrain empties the cache through one of the three ways and asserts the empty-cache clause.
func finalDrain(l *lab.Lab, o *stressOpts, main *lab.Client) (out []snapFinding) {
	add := func(sig, detail string) { out = append(out, snapFinding{sig, detail, nil}) }
	main.Wait()
	switch o.FinalDrain {
	case "del":
		for k := 0; k < o.Cfg.NKeys; k++ {
			main.Del(k)
		}
		main.Wait()
	case "clear":
		main.Clear()
	case "expire":
		// delete everything without a TTL, then wait (bounded by sweeps, not sleeps) until the TTL entries are swept
		l.C.Pause()
		s := l.C.Snapshot()
		l.C.Resume()
		var latest time.Time
		for _, e := range s.Entries {
			if e.Expiration.IsZero() {
				main.Del(l.HashIdx[e.Key])
			} else if e.Expiration.After(latest) {
				latest = e.Expiration
			}
		}
		main.Wait()
		if !latest.IsZero() {
			deadline := latest.Add(time.Duration(3*ristretto.VerifBucketSeconds()+2) * time.Second)
			for time.Now().Before(deadline) {
				time.Sleep(100 * time.Millisecond)
				l.C.Pause()
				n := len(l.C.Snapshot().Entries)
				l.C.Resume()
				if n == 0 {
					break
				}
			}
		}
	}
	l.C.Pause()
	s := l.C.Snapshot()
	rc := l.C.RemainingCost()
	vals := main.IterValues(-1)
	l.C.Resume()
	if o.FinalDrain == "expire" && len(s.Entries) != 0 {
		// not every key has been expired-and-swept within the wait: the clause's antecedent does not hold
		// (whether expired entries are eventually swept is C14's question)
		add("harness/expire-drain-incomplete", fmt.Sprintf("%d entries still in the map after waiting for the sweeps", len(s.Entries)))
		return
	}
	if len(s.Entries) != 0 || len(s.KeyCosts) != 0 {
		add("C13/not-empty-after-"+o.FinalDrain, fmt.Sprintf("after every key was removed (%s): %d entries in the map, %d keys accounted", o.FinalDrain, len(s.Entries), len(s.KeyCosts)))
	}
	if rc != s.MaxCost {
		add("C13/remaining-not-maxcost-after-"+o.FinalDrain, fmt.Sprintf("after every key was removed (%s): RemainingCost()=%d MaxCost=%d", o.FinalDrain, rc, s.MaxCost))
	}
	if len(vals) != 0 {
		add("C13/enumerates-after-"+o.FinalDrain, fmt.Sprintf("after every key was removed (%s): IterValues yields %d values", o.FinalDrain, len(vals)))
	}
	return
}
