package main

// C19 — Bloom filter: no false negatives, AddIfNotHas contract, Clear empties,
// JSON round trip answers identically. Reference-set monitor with structured
// probe hashes; built with checkptr (the filter uses unsafe byte addressing).

import (
	"fmt"
	"math/bits"

	"github.com/dgraph-io/ristretto/v2/z"
	"verif/harness/lab"
)

func init() { registry["C19"] = runC19 }

type c19Case struct {
	P0    float64  `json:"param0"`
	P1    float64  `json:"param1"`
	Ops   int      `json:"ops"`
	Seed  uint64   `json:"stream"`
	Trace []string `json:"trace_tail,omitempty"`
}

func c19Structured(rng *lab.RNG) []uint64 {
	hs := []uint64{0, ^uint64(0), 1, 1 << 63, 0xFFFFFFFF, 0xFFFFFFFF00000000, 0x00000000FFFFFFFF}
	for b := 0; b < 64; b++ {
		hs = append(hs, 1<<uint(b), ^(uint64(1) << uint(b)))
	}
	// high part 0 / all ones, low part 0 / all ones for every split point
	for s := 1; s < 64; s++ {
		lowOnes := (uint64(1) << uint(s)) - 1
		hs = append(hs, lowOnes, ^lowOnes, lowOnes^(1<<uint(s-1)))
		r := rng.Uint64()
		hs = append(hs, r&lowOnes, r&^lowOnes, r|lowOnes, r|^lowOnes)
	}
	return hs
}

func runC19(c *Ctx) {
	r := c.R
	r.Rule = "filters from (entries,locations) and (entries,rate) parameter lists; per filter a generated sequence of Add/AddIfNotHas/Has/Clear/JSON round trips with random + structured hashes, checked against a reference set; distinct by (parameter pair, operation kind, fill-level decile, probe class); non-trivial when the filter holds at least one hash"
	type pp struct{ a, b float64 }
	var params []pp
	for _, e := range []float64{0, 1, 511, 512, 513, 1000, 65536, 1<<20 - 1, 1<<20 + 1} {
		for _, l := range []float64{1, 2, 3, 4, 5, 6, 7, 8, 16, 64} {
			params = append(params, pp{e, l})
		}
	}
	for _, e := range []float64{1, 2, 100, 512, 1000, 65536, 1 << 20} {
		for _, rate := range []float64{0.5, 0.1, 0.01, 1e-6, 0.999} {
			params = append(params, pp{e, rate})
		}
	}
	reps := c.N(1, 6)
	if c.Arg == "asan" {
		reps = 2 // the address-sanitizer build is 5-6 times slower: a third of the sequences
	}
	stream := uint64(0)
	for rep := 0; rep < reps; rep++ {
		for _, p := range params {
			stream++
			rng := c.rng(1900 + stream)
			nops := lab.Pick(rng, []int{10, 100, 1000, 5000})
			if c.Thorough() && rng.Chance(0.2) {
				nops = 100000
			}
			cs := c19Case{P0: p.a, P1: p.b, Ops: nops, Seed: stream}
			c.J.Case(cs)
			c19One(c, rng, cs)
		}
	}
}

func c19One(c *Ctx, rng *lab.RNG, cs c19Case) {
	r := c.R
	r.Eval(1)
	var bf *z.Bloom
	if p := lab.Try(func() { bf = z.NewBloomFilter(cs.P0, cs.P1) }); p != nil {
		r.Violate("C19/panic-new/"+p.Short(), p.Msg, cs)
		return
	}
	structured := c19Structured(rng)
	added := map[uint64]struct{}{}
	var addedList []uint64
	pkey := fmt.Sprintf("%g/%g", cs.P0, cs.P1)
	var trace []string
	tr := func(f string, a ...any) {
		trace = append(trace, fmt.Sprintf(f, a...))
		if len(trace) > 30 {
			trace = trace[len(trace)-30:]
		}
	}
	fail := func(sig, detail string) {
		cs.Trace = append([]string(nil), trace...)
		r.Violate(sig, fmt.Sprintf("params=(%g,%g): %s", cs.P0, cs.P1, detail), cs)
	}
	var history []uint64 // hashes added at any time (survives Clear): re-adding them after a Clear must work
	justCleared := false
	newHash := func() (uint64, string) {
		if len(history) > 0 && (justCleared || rng.Chance(0.1)) {
			justCleared = false
			if rng.Chance(0.6) {
				return history[len(history)-1], "last-before-clear"
			}
			return lab.Pick(rng, history), "re-add-old"
		}
		switch rng.Intn(4) {
		case 0:
			return lab.Pick(rng, structured), "structured"
		case 1:
			if len(addedList) > 0 {
				return lab.Pick(rng, addedList), "re-add"
			}
			fallthrough
		default:
			return rng.Uint64(), "random"
		}
	}
	fill := func() int {
		// fill-level decile by set bits is not observable through the API; use count of adds
		n := len(addedList)
		return bits.Len(uint(n))
	}
	checkAllAdded := func(where string) bool {
		for _, h := range addedList {
			if !bf.Has(h) {
				fail("C19/false-negative", fmt.Sprintf("%s: Has(%#x)=false for an added hash (added=%d)", where, h, len(addedList)))
				return false
			}
		}
		return true
	}
	probes := func() []uint64 {
		ps := append([]uint64(nil), structured...)
		for i := 0; i < 200; i++ {
			ps = append(ps, rng.Uint64())
		}
		if len(addedList) <= 2000 {
			ps = append(ps, addedList...)
		} else {
			for i := 0; i < 2000; i++ {
				ps = append(ps, lab.Pick(rng, addedList))
			}
		}
		return ps
	}
	roundTrip := func() bool {
		var data []byte
		var bf2 *z.Bloom
		var err error
		if p := lab.Try(func() { data = bf.JSONMarshal(); bf2, err = z.JSONUnmarshal(data) }); p != nil {
			fail("C19/panic-json/"+p.Short(), p.Msg)
			return false
		}
		if err != nil {
			fail("C19/json-error", err.Error())
			return false
		}
		for _, h := range probes() {
			if a, b := bf.Has(h), bf2.Has(h); a != b {
				fail("C19/json-disagree", fmt.Sprintf("Has(%#x): original=%v unmarshalled=%v (added=%d)", h, a, b, len(addedList)))
				return false
			}
		}
		r.Obs("json_round_trips", 1)
		r.DistinctKey("%s/json/%d", pkey, fill())
		// the unmarshalled filter is a filter like any other: Clear must empty it ...
		if rng.Chance(0.5) {
			bf3, err := z.JSONUnmarshal(data)
			if err != nil {
				fail("C19/json-error", err.Error())
				return false
			}
			bf3.Clear()
			for _, h := range probes() {
				if bf3.Has(h) {
					fail("C19/clear-not-empty", fmt.Sprintf("Has(%#x)=true right after Clear on a filter restored from JSON (added=%d)", h, len(addedList)))
					return false
				}
			}
			r.Obs("clears_of_restored_filters", 1)
		}
		// ... and the history may continue on it
		if rng.Chance(0.5) {
			bf = bf2
			tr("continue on the unmarshalled filter")
			r.Obs("continued_on_restored_filter", 1)
			r.DistinctKey("%s/continue-on-restored/%d", pkey, fill())
		}
		return true
	}
	ok := true
	p := lab.Try(func() {
		if !roundTrip() { // empty filter
			ok = false
			return
		}
		for i := 0; i < cs.Ops && ok; i++ {
			switch op := rng.Intn(100); {
			case op < 45:
				h, cls := newHash()
				tr("Add(%#x)", h)
				bf.Add(h)
				history = append(history, h)
				if _, dup := added[h]; !dup {
					added[h] = struct{}{}
					addedList = append(addedList, h)
				}
				if !bf.Has(h) {
					fail("C19/false-negative", fmt.Sprintf("Has(%#x)=false right after Add", h))
					ok = false
				}
				r.Obs("adds", 1)
				r.DistinctKey("%s/add/%d/%s", pkey, fill(), cls)
			case op < 80:
				h, cls := newHash()
				before := bf.Has(h)
				got := bf.AddIfNotHas(h)
				tr("AddIfNotHas(%#x)=%v (Has before=%v)", h, got, before)
				history = append(history, h)
				if got != !before {
					fail("C19/addifnothas-result", fmt.Sprintf("AddIfNotHas(%#x)=%v but Has before=%v", h, got, before))
					ok = false
				}
				if !bf.Has(h) {
					fail("C19/false-negative", fmt.Sprintf("Has(%#x)=false right after AddIfNotHas", h))
					ok = false
				}
				if _, dup := added[h]; !dup {
					// present either because it was added now or because all its bits were already set
					added[h] = struct{}{}
					addedList = append(addedList, h)
				}
				r.Obs("addifnothas", 1)
				r.DistinctKey("%s/ainh/%d/%s/%v", pkey, fill(), cls, before)
			case op < 93:
				if len(addedList) > 0 {
					h := lab.Pick(rng, addedList)
					if !bf.Has(h) {
						fail("C19/false-negative", fmt.Sprintf("Has(%#x)=false for an added hash (added=%d)", h, len(addedList)))
						ok = false
					}
					r.Obs("has_checks", 1)
				}
			case op < 96:
				// (long histories: the same number of round trips as a 5000-operation one, or serialising large filters
				// thousands of times dominates everything - the thorough tier ran into its watchdog)
				if cs.Ops <= 5000 || rng.Chance(5000/float64(cs.Ops)) {
					ok = roundTrip()
				}
			case op < 98:
				ok = checkAllAdded("full check")
				r.Obs("full_checks", 1)
			default:
				tr("Clear()")
				bf.Clear()
				for _, h := range probes() {
					if bf.Has(h) {
						fail("C19/clear-not-empty", fmt.Sprintf("Has(%#x)=true right after Clear", h))
						ok = false
						break
					}
				}
				added = map[uint64]struct{}{}
				addedList = addedList[:0]
				justCleared = true
				r.Obs("clears", 1)
				r.DistinctKey("%s/clear", pkey)
			}
		}
		if ok {
			ok = checkAllAdded("final") && roundTrip()
		}
	})
	if p != nil {
		fail("C19/panic/"+p.Short(), p.Msg+"\n"+p.Stack)
		return
	}
	if ok {
		r.Sample(3, map[string]any{"params": []float64{cs.P0, cs.P1}, "ops": cs.Ops, "last_ops": trace[max(0, len(trace)-6):], "hashes_held_at_end": len(addedList)})
	}
}
