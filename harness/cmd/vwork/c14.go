package main

// C14 — expiry processing reclaims exactly the expired items, each once.
// (A) directed schedules: the sweep is held at a hook point (after the bucket
// grab / before a key's check / between check and removal) while a client
// re-writes or deletes the key, then released; (B) late application: an insert
// with a short TTL sits in the write buffer while the sweep frontier passes its
// bucket; (C) stress: TTL keys re-written continuously while sweeps run with
// delays at the sweep points. Oracles: life-cycle attribution of sweep
// evictions, "removed by the first sweep that starts after application and
// covers the bucket" (bounded restatement of eventually), index reachability.

import (
	"fmt"
	"strings"
	"sync"
	"sync/atomic"
	"time"

	ristretto "github.com/dgraph-io/ristretto/v2"
	"verif/harness/lab"
)

func init() { registry["C14"] = runC14 }

// sweepCtl observes and optionally holds the sweep of one cache.
type sweepCtl struct {
	mu       sync.Mutex
	cond     *sync.Cond
	l        *lab.Lab
	armed    bool
	point    int
	nth      int             // hold at the nth occurrence of the point (1-based)
	minArg   uint64          // for SweepGrabbed: frontier must be >= minArg
	keys     map[uint64]bool // for key points: only count these key hashes
	seen     int
	reached  bool
	heldArg  uint64
	release  bool
	sweeps   int   // completed sweeps
	frontier int64 // frontier of the last grab
	events   []string
	delay    *lab.Delayer
	slowKeys bool
}

func newSweepCtl(l *lab.Lab, slowKeys bool, delay *lab.Delayer) *sweepCtl {
	s := &sweepCtl{l: l, slowKeys: slowKeys, delay: delay} // set before the hook is installed: the hook reads them unlocked
	s.cond = sync.NewCond(&s.mu)
	l.SetHook(s.hook)
	return s
}

func (s *sweepCtl) hook(point int, arg uint64) {
	switch point {
	case ristretto.VPSweepGrabbed, ristretto.VPSweepKey, ristretto.VPSweepChecked, ristretto.VPSweepDone:
	default:
		if s.delay != nil {
			s.delay.Maybe()
		}
		return
	}
	s.l.LogHook(point, arg)
	if s.slowKeys && (point == ristretto.VPSweepKey || point == ristretto.VPSweepChecked) {
		time.Sleep(200 * time.Microsecond)
	}
	s.mu.Lock()
	defer s.mu.Unlock()
	switch point {
	case ristretto.VPSweepGrabbed:
		s.frontier = int64(arg)
	case ristretto.VPSweepDone:
		s.sweeps++
		s.cond.Broadcast()
	}
	if !s.armed || point != s.point {
		return
	}
	if point == ristretto.VPSweepGrabbed && arg < s.minArg {
		return
	}
	if (point == ristretto.VPSweepKey || point == ristretto.VPSweepChecked) && !s.keys[arg] {
		return
	}
	s.seen++
	if s.seen < s.nth {
		return
	}
	s.armed = false
	s.reached = true
	s.heldArg = arg
	s.cond.Broadcast()
	for !s.release {
		s.cond.Wait()
	}
}

func (s *sweepCtl) arm(point, nth int, minArg uint64, keys map[uint64]bool) {
	s.mu.Lock()
	s.armed, s.point, s.nth, s.minArg, s.keys, s.seen, s.reached, s.release = true, point, nth, minArg, keys, 0, false, false
	s.mu.Unlock()
}

func (s *sweepCtl) waitFor(pred func() bool, d time.Duration) bool {
	deadline := time.Now().Add(d)
	go func() {
		time.Sleep(d + 10*time.Millisecond)
		s.mu.Lock()
		s.cond.Broadcast()
		s.mu.Unlock()
	}()
	s.mu.Lock()
	defer s.mu.Unlock()
	for !pred() {
		if time.Now().After(deadline) {
			return false
		}
		s.cond.Wait()
	}
	return true
}

func (s *sweepCtl) releaseHold() {
	s.mu.Lock()
	s.release = true
	s.armed = false
	s.cond.Broadcast()
	s.mu.Unlock()
}

func (s *sweepCtl) sweepCount() int {
	s.mu.Lock()
	defer s.mu.Unlock()
	return s.sweeps
}

type c14Case struct {
	Kind     string   `json:"kind"`
	Position string   `json:"position,omitempty"`
	Call     string   `json:"racing_call,omitempty"`
	Nth      int      `json:"nth_key,omitempty"`
	NKeys    int      `json:"bucket_keys,omitempty"`
	Stream   uint64   `json:"stream"`
	Trace    []string `json:"trace,omitempty"`
}

// c14Prop is the property the findings are reported under: "C14", or "C06" when the directed schedules are run
// for C06's clause "the entry stays retrievable until it is overwritten, deleted, cleared or its TTL elapses".
var c14Prop = "C14"

func runC14(c *Ctx) {
	r := c.R
	if c.Arg == "C06" {
		c14Prop = "C06"
	}
	if c.Arg == "C15" {
		c14Prop = "C15"
	}
	if c.Arg == "C17" {
		c14Prop = "C17" // only the set-after-sweep cases, with metrics on: the conservation laws across expiry of cost-0 entries
	}
	r.Rule = "(A) directed: position of the racing call in {before the grab, after the grab, before the key's check, between check and removal} x racing call in {rewrite later ttl, no ttl, shorter ttl, Del, Del+re-insert} x the key is the 1st/2nd/last visited of its bucket; (B) late application: a short-ttl insert waits in the write buffer until its bucket lies behind the sweep frontier; (C) stress with delays at the sweep points. distinct by (kind, position, call, nth, outcome class); non-trivial when at least one entry expired"
	ristretto.VerifSetBucketSeconds(1)
	rounds := c.N(2, 16)
	for round := 0; round < rounds; round++ {
		var cases []c14Case
		positions := []string{"before-grab", "after-grab", "before-check", "between-check-and-removal"}
		calls := []string{"later", "none", "shorter", "del", "del-reinsert", "fresh-short", "refused-none", "refused-later"}
		if c14Prop == "C06" {
			calls = []string{"later", "none", "del-reinsert"}
		}
		if c14Prop == "C15" || c14Prop == "C17" {
			positions = nil
		}
		for _, p := range positions {
			for _, cl := range calls {
				for _, nth := range []int{1, 2, 4} {
					if p == "before-grab" && nth != 1 {
						continue
					}
					cases = append(cases, c14Case{Kind: "directed", Position: p, Call: cl, Nth: nth, NKeys: 4})
				}
			}
		}
		for i := 0; i < c.N(24, 40) && c14Prop == "C14"; i++ {
			cases = append(cases, c14Case{Kind: "late"})
		}
		for i := 0; i < 4 && c14Prop == "C14"; i++ {
			cases = append(cases, c14Case{Kind: "stress"})
		}
		for i := 0; i < 2 && c14Prop == "C14"; i++ {
			cases = append(cases, c14Case{Kind: "backlog"})
		}
		for i := 0; i < 3 && (c14Prop == "C14" || c14Prop == "C15"); i++ {
			cases = append(cases, c14Case{Kind: "after-clear", Nth: i})
		}
		for i := 0; i < 2 && (c14Prop == "C14" || c14Prop == "C06" || c14Prop == "C17"); i++ {
			cases = append(cases, c14Case{Kind: "set-after-sweep", Nth: i})
		}
		for i := 0; i < 3 && c14Prop == "C14"; i++ {
			cases = append(cases, c14Case{Kind: "stale-expiration-rewrite", Nth: i})
		}
		var wg sync.WaitGroup
		for i := range cases {
			if (i+round)%c.NParts != c.Part {
				continue
			}
			cases[i].Stream = uint64(round*10000 + i)
			wg.Add(1)
			go func(cs c14Case) {
				defer wg.Done()
				switch cs.Kind {
				case "directed":
					c14Directed(c, cs)
				case "late":
					c14Late(c, cs)
				case "stress":
					c14Stress(c, cs)
				case "backlog":
					c14Backlog(c, cs)
				case "after-clear":
					c14AfterClear(c, cs)
				case "set-after-sweep":
					c14SetAfterSweep(c, cs)
				case "stale-expiration-rewrite":
					c14StaleRewrite(c, cs)
				}
			}(cases[i])
		}
		wg.Wait()
	}
}

type c14Env struct {
	c     *Ctx
	cs    c14Case
	l     *lab.Lab
	cl    *lab.Client
	sw    *sweepCtl
	trace []string
	tmu   sync.Mutex
	bad   bool
}

func (e *c14Env) tr(f string, a ...any) {
	e.tmu.Lock()
	e.trace = append(e.trace, fmt.Sprintf("+%dms ", time.Since(e.l.Start).Milliseconds())+fmt.Sprintf(f, a...))
	e.tmu.Unlock()
}

func (e *c14Env) fail(sig, d string) {
	if (c14Prop == "C06" && !strings.HasPrefix(sig, "rewritten-entry-removed") && sig != "entry-without-ttl-removed" && sig != "set-after-sweep-lost") ||
		(c14Prop == "C17" && !strings.HasPrefix(sig, "keys-added-minus-evicted") && !strings.HasPrefix(sig, "cost-added-minus-evicted")) {
		e.c.R.Obs("findings_owned_by_other_property["+sig+"]", 1)
		return
	}
	e.bad = true
	cs := e.cs
	e.tmu.Lock()
	cs.Trace = append([]string(nil), e.trace...)
	e.tmu.Unlock()
	e.c.R.Violate(c14Prop+"/"+sig, fmt.Sprintf("[%s %s %s nth=%d] %s", e.cs.Kind, e.cs.Position, e.cs.Call, e.cs.Nth, d), cs)
}

func newC14Env(c *Ctx, cs c14Case, nkeys int, setbuf int) *c14Env {
	cfg := lab.CacheCfg{NumCounters: 1000, MaxCost: 1 << 20, BufferItems: 64, IgnoreInternalCost: true, KeyKind: "uint64", NKeys: nkeys, TTLTick: 1, SetBuf: setbuf}
	if strings.HasPrefix(cs.Call, "refused-") {
		cfg.ShouldUpdate = "parity" // ShouldUpdate refuses values with an odd sequence number
	}
	cfg.Metrics = c14Prop == "C17"
	l, err := lab.NewLab(cfg)
	if err != nil {
		c.R.Inconc(1)
		return nil
	}
	e := &c14Env{c: c, cs: cs, l: l, cl: l.NewClient()}
	e.sw = newSweepCtl(l, cs.Kind == "stress", stressDelayer(cs))
	return e
}

func stressDelayer(cs c14Case) *lab.Delayer {
	if cs.Kind != "stress" {
		return nil
	}
	return lab.NewDelayer(cs.Stream, 1)
}

// alignToBucket sleeps until the fractional part of the wall-clock second is below 250 ms, so that entries
// written in the next few milliseconds with a ttl of 300 ms all land in the same 1-second bucket.
func alignToBucket() {
	for {
		now := time.Now()
		frac := now.Sub(now.Truncate(time.Second))
		if frac < 250*time.Millisecond {
			return
		}
		time.Sleep(time.Second - frac + 5*time.Millisecond)
	}
}

// valueEvents counts the callbacks a value received.
func valueEvents(evs []lab.Ev, v uint64) (evict, exit int) {
	for _, e := range evs {
		if e.Val != v {
			continue
		}
		switch e.Kind {
		case lab.EvOnEvict:
			evict++
		case lab.EvOnExit:
			exit++
		}
	}
	return
}

func c14Directed(c *Ctx, cs c14Case) {
	r := c.R
	r.Eval(1)
	c.J.Case(cs)
	e := newC14Env(c, cs, cs.NKeys+1, 0)
	if e == nil {
		return
	}
	defer e.l.Forget()
	l, cl := e.l, e.cl
	nv := func(k int) uint64 { return cl.NextValParity(k, false) } // acceptable to ShouldUpdate where that is configured
	closed := false
	defer func() {
		e.sw.releaseHold()
		if !closed {
			l.C.Close()
		}
	}()
	ctlKey := cs.NKeys
	ctlVal := nv(ctlKey)
	cl.Set(ctlKey, ctlVal, 1, 0)
	cl.Wait()
	alignToBucket()
	const ttl = 300 * time.Millisecond
	vals := make([]uint64, cs.NKeys)
	t0 := time.Now()
	for k := 0; k < cs.NKeys; k++ {
		vals[k] = nv(k)
		if !cl.Set(k, vals[k], 1, ttl) {
			r.Inconc(1)
			return
		}
	}
	cl.Wait()
	t1 := time.Now()
	bucket := uint64(ristretto.VerifStorageBucket(t0.Add(ttl)))
	if ristretto.VerifStorageBucket(t1.Add(ttl)) != int64(bucket) {
		r.Inconc(1) // straddled a bucket boundary (machine stalled): not the situation this case is about
		return
	}
	e.tr("wrote %d keys with ttl %v into bucket %d", cs.NKeys, ttl, bucket)
	targets := map[uint64]bool{}
	for k := 0; k < cs.NKeys; k++ {
		targets[l.Hashes[k][0]] = true
	}
	race := -1 // key index the racing call is applied to
	var newVal uint64
	const freshTTL = 700 * time.Millisecond
	var freshT0, freshT1 time.Time
	doCall := func(k int) {
		race = k
		switch cs.Call {
		case "later":
			newVal = nv(k)
			cl.Set(k, newVal, 1, time.Hour)
		case "none":
			newVal = nv(k)
			cl.Set(k, newVal, 1, 0)
		case "shorter":
			newVal = nv(k)
			cl.Set(k, newVal, 1, time.Millisecond)
		case "fresh-short":
			newVal = nv(k)
			freshT0 = time.Now()
			cl.Set(k, newVal, 1, freshTTL)
			freshT1 = time.Now()
		case "refused-none":
			newVal = cl.NextValParity(k, true)
			cl.Set(k, newVal, 1, 0)
		case "refused-later":
			newVal = cl.NextValParity(k, true)
			cl.Set(k, newVal, 1, time.Hour)
		case "del":
			cl.Del(k)
		case "del-reinsert":
			cl.Del(k)
			newVal = nv(k)
			cl.Set(k, newVal, 1, 0)
		}
		e.tr("racing call %s on key %d (new value %#x)", cs.Call, k, newVal)
	}
	s0 := e.sw.sweepCount()
	switch cs.Position {
	case "before-grab":
		doCall(0)
	case "after-grab":
		e.sw.arm(ristretto.VPSweepGrabbed, 1, bucket, nil)
	case "before-check":
		e.sw.arm(ristretto.VPSweepKey, cs.Nth, 0, targets)
	case "between-check-and-removal":
		e.sw.arm(ristretto.VPSweepChecked, cs.Nth, 0, targets)
	}
	if cs.Position != "before-grab" {
		if !e.sw.waitFor(func() bool { return e.sw.reached }, 6*time.Second) {
			r.Inconc(1)
			r.Note("C14 directed: sweep hold point %s never reached", cs.Position)
			return
		}
		k := 0
		if cs.Position != "after-grab" {
			k = l.HashIdx[e.sw.heldArg]
		} else {
			k = (cs.Nth - 1) % cs.NKeys
		}
		e.tr("sweep held at %s (arg %#x)", cs.Position, e.sw.heldArg)
		done := make(chan struct{})
		go func() { doCall(k); close(done) }()
		select {
		case <-done:
		case <-time.After(10 * time.Second):
			// the racing call cannot complete while the sweep is held (e.g. Del blocked on a full buffer): release first
		}
		e.sw.releaseHold()
		<-done
	}
	// wait until a sweep whose frontier covers the bucket has completed
	if !e.sw.waitFor(func() bool { return e.sw.sweeps > s0 && e.sw.frontier >= int64(bucket) }, 6*time.Second) {
		r.Inconc(1)
		r.Note("C14 directed: no covering sweep within 6 s")
		return
	}
	// one more complete sweep so that "during" and "after" are both behind us, then drain
	s1 := e.sw.sweepCount()
	e.sw.waitFor(func() bool { return e.sw.sweeps > s1 }, 3*time.Second)
	cl.Wait()
	if cs.Call == "fresh-short" {
		// the re-written entry carries a fresh ttl: it must survive the sweep that was in progress ...
		if g1 := time.Now(); g1.Before(freshT0.Add(freshTTL)) {
			l.C.Pause()
			sn := l.C.Snapshot()
			l.C.Resume()
			found := false
			for _, en := range sn.Entries {
				if en.Value == newVal {
					found = true
					idx := int64(-1)
					for b, keys := range sn.Buckets {
						if _, ok := keys[en.Key]; ok {
							idx = b
						}
					}
					if idx < 0 || idx <= sn.LastCleaned {
						e.fail("rewritten-entry-unreachable/"+cs.Position+"/fresh-short", fmt.Sprintf("key re-written with a fresh ttl while the sweep was %s is indexed at bucket %d (frontier %d): no sweep will ever reclaim it", cs.Position, idx, sn.LastCleaned))
					}
				}
			}
			if !found && time.Now().Before(freshT0.Add(freshTTL)) {
				e.fail("rewritten-entry-removed/"+cs.Position+"/fresh-short", "key re-written with a fresh (unexpired) ttl during the sweep is gone")
			}
		}
		// ... and be reclaimed once its own ttl has elapsed and a covering sweep has completed
		fb := ristretto.VerifStorageBucket(freshT1.Add(freshTTL))
		if !e.sw.waitFor(func() bool { return e.sw.frontier >= fb }, 6*time.Second) {
			r.Inconc(1)
			return
		}
		s2 := e.sw.sweepCount()
		e.sw.waitFor(func() bool { return e.sw.sweeps > s2 }, 3*time.Second)
		cl.Wait()
	}
	l.C.Pause()
	snap := l.C.Snapshot()
	l.C.Resume()
	evs := l.CallbacksSince(0)
	// the raced key
	got, hit := cl.Get(race)
	e.tr("after the sweep: Get(raced key %d) = (%#x,%v)", race, got, hit)
	oe, ox := valueEvents(evs, vals[race])
	outcome := "n/a"
	switch cs.Call {
	case "later", "none", "del-reinsert":
		ne, nx := valueEvents(evs, newVal)
		if ne > 0 || nx > 0 || !hit || got != newVal {
			outcome = "removed"
			e.fail(fmt.Sprintf("rewritten-entry-removed/%s/%s", cs.Position, cs.Call),
				fmt.Sprintf("key %d was re-written (%s) while the sweep was %s; the new value %#x must survive expiry processing but: retrievable=%v OnEvict=%d OnExit=%d", race, cs.Call, cs.Position, newVal, hit && got == newVal, ne, nx))
		} else {
			outcome = "survived"
			if cs.Call == "later" {
				for _, en := range snap.Entries {
					if en.Value != newVal {
						continue
					}
					idx := int64(-1)
					for b, keys := range snap.Buckets {
						if _, ok := keys[en.Key]; ok {
							idx = b
						}
					}
					if idx < 0 || idx <= snap.LastCleaned {
						e.fail("rewritten-entry-unreachable/"+cs.Position+"/later", fmt.Sprintf("key %d re-written with a later ttl while the sweep was %s is indexed at bucket %d (frontier %d): it will never be reclaimed when that ttl elapses", race, cs.Position, idx, snap.LastCleaned))
					}
				}
			}
			if _, ok := snap.KeyCosts[l.Hashes[race][0]]; !ok {
				e.fail("rewritten-entry-unaccounted/"+cs.Position+"/"+cs.Call, fmt.Sprintf("key %d survived in the map but is no longer accounted by the capacity policy", race))
			}
		}
		if ox != 1 {
			e.fail("old-value-exit-count", fmt.Sprintf("the overwritten/deleted value of key %d was passed to OnExit %d times", race, ox))
		}
	case "refused-none", "refused-later":
		// ShouldUpdate refused the re-write: the entry keeps its value AND its expiration, so it is reclaimed like the others
		_, acc := snap.KeyCosts[l.Hashes[race][0]]
		// (the refused value itself may be turned away, or - when its buffered item is applied after the sweep has
		// removed the old entry - be stored as a fresh insert: both are fine)
		outcome = "refused-reclaimed"
		if hit && got == newVal && acc {
			outcome = "refused-reclaimed-then-inserted"
			hit, acc = false, false
		}
		if oe != 1 || ox != 1 || acc || hit {
			outcome = "refused-leaked"
			e.fail("refused-rewrite-entry-not-reclaimed/"+cs.Position, fmt.Sprintf("a re-write (%s) of key %d was refused by ShouldUpdate while the sweep was %s; the entry kept its old expiration, which has passed, and a covering sweep completed, but OnEvict=%d OnExit=%d still-accounted=%v retrievable=%v", cs.Call, race, cs.Position, oe, ox, acc, hit))
		}
	case "del":
		if hit {
			e.fail("deleted-key-retrievable", fmt.Sprintf("key %d is retrievable after Del", race))
		}
		if ox != 1 || oe > 1 {
			e.fail("old-value-exit-count", fmt.Sprintf("the deleted value of key %d: OnEvict %d times, OnExit %d times", race, oe, ox))
		}
		outcome = "deleted"
	case "fresh-short":
		ne, nx := valueEvents(evs, newVal)
		_, acc := snap.KeyCosts[l.Hashes[race][0]]
		outcome = "fresh-reclaimed"
		if ne != 1 || nx != 1 || acc || hit {
			outcome = "fresh-leaked"
			e.fail("rewritten-entry-not-reclaimed/"+cs.Position+"/fresh-short", fmt.Sprintf("key %d was re-written with ttl %v while the sweep was %s; that ttl has elapsed and a covering sweep completed, but OnEvict=%d OnExit=%d still-accounted=%v retrievable=%v", race, freshTTL, cs.Position, ne, nx, acc, hit))
		}
		if ox != 1 {
			e.fail("old-value-exit-count", fmt.Sprintf("the overwritten value of key %d was passed to OnExit %d times", race, ox))
		}
	case "shorter":
		outcome = fmt.Sprintf("shorter-hit=%v", hit)
		if ox != 1 {
			e.fail("old-value-exit-count", fmt.Sprintf("the overwritten value of key %d was passed to OnExit %d times", race, ox))
		}
	}
	// every other key of the bucket: expired, so reclaimed exactly once by a covering sweep
	for k := 0; k < cs.NKeys; k++ {
		if k == race {
			continue
		}
		ev, ex := valueEvents(evs, vals[k])
		_, acc := snap.KeyCosts[l.Hashes[k][0]]
		if ev != 1 || ex != 1 || acc {
			e.fail("expired-entry-not-reclaimed-once", fmt.Sprintf("key %d expired and a covering sweep completed, but OnEvict=%d OnExit=%d still-accounted=%v", k, ev, ex, acc))
			break
		}
		if _, h := cl.Get(k); h {
			e.fail("expired-entry-retrievable", fmt.Sprintf("key %d retrievable after expiry", k))
		}
	}
	if v, h := cl.Get(ctlKey); !h || v != ctlVal {
		e.fail("entry-without-ttl-removed", "the control key written without TTL disappeared")
	}
	r.DistinctKey("directed/%s/%s/%d/%s", cs.Position, cs.Call, cs.Nth, outcome)
	r.Obs("directed_cases", 1)
	r.Obs("directed_"+outcome, 1)
	cl.Close()
	closed = true
	if !e.bad {
		r.Sample(3, map[string]any{"case": cs, "outcome": outcome, "trace": e.trace})
	}
}

// c14Late: a short-ttl insert waits in the write buffer (the applier is held on an earlier item) until its
// bucket lies behind what the next sweep will cover; then the applier is released.
func c14Late(c *Ctx, cs c14Case) {
	r := c.R
	r.Eval(1)
	c.J.Case(cs)
	e := newC14Env(c, cs, 3, 0)
	if e == nil {
		return
	}
	defer e.l.Forget()
	l, cl := e.l, e.cl
	closed := false
	defer func() {
		if !closed {
			l.C.Close()
		}
	}()
	// hold the applier on an item for key 2 through the gate; chain the sweep observer behind it
	g := lab.NewGate(l)
	hash0 := l.Hashes[0][0]
	g.SetOther(func(point int, arg uint64) {
		if point == ristretto.VPApplierItemDone && arg == hash0 {
			l.LogHook(point, arg)
		}
		e.sw.hook(point, arg)
	})
	x := cl.NextVal(2)
	cl.Set(2, x, 1, 0)
	if err := g.AwaitHeld(); err != nil {
		r.Inconc(1)
		g.Open()
		return
	}
	const ttl = 50 * time.Millisecond
	v := cl.NextVal(0)
	t0 := time.Now()
	if !cl.Set(0, v, 1, ttl) {
		r.Inconc(1)
		g.Open()
		return
	}
	t1 := time.Now()
	bucket := ristretto.VerifStorageBucket(t1.Add(ttl))
	// wait until the cleanup frontier (bucket of now, minus one) is at or beyond the entry's bucket
	for ristretto.VerifStorageBucket(time.Now())-1 < bucket {
		time.Sleep(20 * time.Millisecond)
	}
	time.Sleep(time.Duration(50+c.rng(cs.Stream).Intn(500)) * time.Millisecond)
	e.tr("insert with ttl %v (bucket %d) has been waiting in the buffer for %v; releasing the applier", ttl, bucket, time.Since(t0))
	s0 := e.sw.sweepCount()
	g.Open()
	cl.Wait()
	// was a covering sweep completed before the insert was applied?
	applied := int64(1 << 62)
	hooks := l.CallbacksSince(0)
	for _, ev := range hooks {
		if ev.Kind == lab.EvHook && int(ev.Key) == ristretto.VPApplierItemDone && ev.T1 < applied {
			applied = ev.T1
		}
	}
	sweptFirst := false
	for _, ev := range hooks {
		if ev.Kind == lab.EvHook && int(ev.Key) == ristretto.VPSweepGrabbed && int64(ev.Val) >= bucket && ev.T1 < applied {
			sweptFirst = true
		}
	}
	_ = s0
	// structural invariant: the entry must be reachable by the sweep
	l.C.Pause()
	snap := l.C.Snapshot()
	l.C.Resume()
	present := false
	for _, en := range snap.Entries {
		if en.Value == v {
			present = true
			indexedAt := int64(-1)
			for b, keys := range snap.Buckets {
				if _, ok := keys[en.Key]; ok {
					indexedAt = b
				}
			}
			e.tr("entry applied; stored expiration bucket %d, indexed at %d, lastCleaned %d, covering sweep ran first: %v", ristretto.VerifStorageBucket(en.Expiration), indexedAt, snap.LastCleaned, sweptFirst)
			if indexedAt < 0 || indexedAt <= snap.LastCleaned {
				e.fail("late-applied-entry-unreachable", fmt.Sprintf("an insert with ttl %v applied %v after its SetWithTTL sits in expiry bucket %d while the sweep frontier is already at %d: no later sweep will visit it", ttl, time.Since(t0).Round(time.Millisecond), indexedAt, snap.LastCleaned))
			}
		}
	}
	// bounded restatement of "eventually": a sweep that started after the application has completed and its
	// frontier lies beyond both the entry's bucket and the frontier at the time of application (an
	// implementation may file a late entry under the next bucket to be cleaned)
	target := max(bucket, snap.LastCleaned+1)
	s1 := e.sw.sweepCount()
	if !e.sw.waitFor(func() bool { return e.sw.sweeps > s1 && e.sw.frontier >= target }, 5*time.Second) {
		r.Inconc(1)
		return
	}
	cl.Wait()
	l.C.Pause()
	snap2 := l.C.Snapshot()
	l.C.Resume()
	ev, ex := valueEvents(l.CallbacksSince(0), v)
	_, acc := snap2.KeyCosts[l.Hashes[0][0]]
	outcome := "reclaimed"
	if ev != 1 || ex != 1 || acc {
		outcome = "leaked"
		if !e.bad {
			e.fail("late-applied-entry-not-reclaimed", fmt.Sprintf("the entry expired long ago and a sweep covering its bucket and the frontier at application completed after it was applied, but OnEvict=%d OnExit=%d still-accounted=%v (present at application: %v)", ev, ex, acc, present))
		}
	}
	if _, h := cl.Get(0); h {
		e.fail("expired-entry-retrievable", "born-expired entry is retrievable")
	}
	r.DistinctKey("late/sweptfirst=%v/%s", sweptFirst, outcome)
	r.Obs("late_cases", 1)
	r.Obs(fmt.Sprintf("late_covering_sweep_first_%v", sweptFirst), 1)
	cl.Close()
	closed = true
	if !e.bad {
		r.Sample(2, map[string]any{"case": cs, "outcome": outcome, "trace": e.trace})
	}
}

// c14Stress: TTL keys re-written continuously with random ttls (short, none, one hour) while sweeps run,
// with small sleeps at the per-key sweep points so that re-writes fall into the check/remove windows.
func c14Stress(c *Ctx, cs c14Case) {
	r := c.R
	r.Eval(1)
	c.J.Case(cs)
	nk := 24
	e := newC14Env(c, cs, nk, 0)
	if e == nil {
		return
	}
	defer e.l.Forget()
	l := e.l
	workers := 4
	clients := make([]*lab.Client, workers)
	for i := range clients {
		clients[i] = l.NewClient()
	}
	var wg sync.WaitGroup
	stopAt := time.Now().Add(2600 * time.Millisecond)
	for w := 0; w < workers; w++ {
		wg.Add(1)
		go func(w int) {
			defer wg.Done()
			rng := lab.NewRNG(c.Seed, cs.Stream*31+uint64(w))
			cl := clients[w]
			for time.Now().Before(stopAt) {
				k := rng.Intn(nk/workers)*workers + w // own keys: per-key program order
				var ttl time.Duration
				switch rng.Intn(6) {
				case 0:
					ttl = 0
				case 1:
					ttl = time.Hour
				default:
					ttl = time.Duration(1+rng.Intn(900)) * time.Millisecond
				}
				cl.Set(k, cl.NextVal(k), 1, ttl)
				if rng.Chance(0.05) {
					cl.Del(k)
				}
				if rng.Chance(0.3) {
					cl.Get(k)
				}
				time.Sleep(time.Duration(rng.Intn(300)) * time.Microsecond)
			}
		}(w)
	}
	wg.Wait()
	e.cl.Wait()
	// let two more complete sweeps pass the last short expiration
	time.Sleep(1100 * time.Millisecond)
	s1 := e.sw.sweepCount()
	e.sw.waitFor(func() bool { return e.sw.sweeps >= s1+2 }, 4*time.Second)
	e.cl.Wait()
	l.C.Pause()
	snap := l.C.Snapshot()
	l.C.Resume()
	now := time.Now()
	e.cl.Close()
	a := lab.Analyze(l.Merged())
	// (1) every value evicted by expiry processing (no capacity evictions here: ample room, no Clear before the
	// final Close) must come from a write whose earliest possible expiration had passed
	closeT1 := int64(1 << 62)
	for _, cl := range a.Clears {
		closeT1 = cl.T1
	}
	sweepEvictions := 0
	for _, ev := range a.Evs {
		if ev.Kind != lab.EvOnEvict || ev.T1 > closeT1 {
			continue
		}
		vi := a.Vals[ev.Val]
		if vi == nil || vi.Set == nil {
			continue
		}
		sweepEvictions++
		ttl := time.Duration(vi.Set.TTL)
		if ttl == 0 || ttl >= time.Hour {
			e.trace = a.Witness(ev.Val)
			e.fail("sweep-removed-unexpired-entry", fmt.Sprintf("expiry processing evicted value %#x of key %d which was written with ttl %v (its key had been written with a short ttl before and was re-written while a sweep was in progress)", ev.Val, ev.Key, ttl))
			break
		}
		if ev.W1 < vi.Set.W1+int64(ttl) {
			e.fail("sweep-removed-before-expiry", fmt.Sprintf("value %#x written with ttl %v was evicted %v after its SetWithTTL began", ev.Val, ttl, time.Duration(ev.W1-vi.Set.W1)))
			break
		}
	}
	r.Obs("stress_sweep_evictions", int64(sweepEvictions))
	// (2) reachability + reclamation of what is left
	for _, en := range snap.Entries {
		if en.Expiration.IsZero() {
			continue
		}
		idx := int64(-1)
		for b, keys := range snap.Buckets {
			if _, ok := keys[en.Key]; ok {
				idx = b
			}
		}
		if idx < 0 || idx <= snap.LastCleaned {
			e.fail("entry-unreachable-by-sweep", fmt.Sprintf("stored entry (key %d, expiration in bucket %d) is indexed at %d with the sweep frontier at %d", l.HashIdx[en.Key], ristretto.VerifStorageBucket(en.Expiration), idx, snap.LastCleaned))
			break
		}
		if en.Expiration.Before(now.Add(-2500 * time.Millisecond)) {
			e.fail("expired-entry-not-reclaimed", fmt.Sprintf("entry of key %d expired %v ago and at least two sweeps completed since", l.HashIdx[en.Key], now.Sub(en.Expiration).Round(time.Millisecond)))
			break
		}
	}
	// (3) exactly-once for every value
	a.CheckLifecycle(func(sig, detail string, w any) {
		if sig == "late-exit-by-in-flight-call" {
			return
		}
		if !e.bad {
			e.bad = true
			r.Violate("C14/lifecycle/"+sig, detail, map[string]any{"case": cs, "witness": w})
		}
	})
	r.DistinctKey("stress/%d/evictions>0=%v", cs.Stream%7, sweepEvictions > 0)
	r.Obs("stress_cases", 1)
	for k, v := range a.Counts {
		r.Obs("stress_ev_"+k, v)
	}
}

// ---------------------------------------------------------------- C07 (directed: observers while the sweep is in progress)

func init() { registry["C07D"] = runC07Directed }

// runC07Directed: entries whose TTL has elapsed are observed by Get, GetTTL and IterValues while the sweep is held
// right after it grabbed their bucket, and before the n-th per-key check: expired items must not be yielded
// "whether or not the background sweep has run yet" - including while it is running.
func runC07Directed(c *Ctx) {
	r := c.R
	r.Rule = "directed: 4 keys with ttl 300 ms in one 1-second bucket plus one key without ttl; the sweep is held after the bucket grab / before the 1st, 2nd, 4th per-key check; Get, GetTTL and IterValues are issued during the hold (all started long after the latest possible expiration); distinct by (hold position, nth, observer)"
	ristretto.VerifSetBucketSeconds(1)
	c14Prop = "C07"
	rounds := c.N(2, 12)
	for round := 0; round < rounds; round++ {
		var wg sync.WaitGroup
		if round%c.NParts == c.Part {
			for j, sb := range []int{1, 2, 8, 64} {
				wg.Add(1)
				go func(sb int, stream uint64) { defer wg.Done(); c07Dropped(c, sb, stream) }(sb, uint64(round*10+j))
			}
			for j, rd := range []int{1, 4, 8} {
				c07ReaderRace(c, rd, uint64(round*10+j))
			}
		}
		idx := 0
		for _, pos := range []string{"after-grab", "before-check"} {
			for _, nth := range []int{1, 2, 4} {
				for rep := 0; rep < 3; rep++ {
					idx++
					if (idx+round)%c.NParts != c.Part {
						continue
					}
					wg.Add(1)
					go func(pos string, nth int, stream uint64) {
						defer wg.Done()
						c07Held(c, c14Case{Kind: "c07-during-sweep", Position: pos, Nth: nth, NKeys: 4, Stream: stream})
					}(pos, nth, uint64(round*100+idx))
				}
			}
		}
		wg.Wait()
	}
}

func c07Held(c *Ctx, cs c14Case) {
	r := c.R
	r.Eval(1)
	c.J.Case(cs)
	e := newC14Env(c, cs, cs.NKeys+1, 0)
	if e == nil {
		return
	}
	defer e.l.Forget()
	l, cl := e.l, e.cl
	defer func() {
		e.sw.releaseHold()
		l.C.Close()
	}()
	ctlKey := cs.NKeys
	ctlVal := cl.NextVal(ctlKey)
	cl.Set(ctlKey, ctlVal, 1, 0)
	cl.Wait()
	alignToBucket()
	const ttl = 300 * time.Millisecond
	t0 := time.Now()
	vals := map[uint64]bool{}
	for k := 0; k < cs.NKeys; k++ {
		v := cl.NextVal(k)
		vals[v] = true
		if !cl.Set(k, v, 1, ttl) {
			r.Inconc(1)
			return
		}
	}
	cl.Wait()
	t1 := time.Now()
	bucket := uint64(ristretto.VerifStorageBucket(t0.Add(ttl)))
	if ristretto.VerifStorageBucket(t1.Add(ttl)) != int64(bucket) {
		r.Inconc(1)
		return
	}
	targets := map[uint64]bool{}
	for k := 0; k < cs.NKeys; k++ {
		targets[l.Hashes[k][0]] = true
	}
	if cs.Position == "after-grab" {
		e.sw.arm(ristretto.VPSweepGrabbed, 1, bucket, nil)
	} else {
		e.sw.arm(ristretto.VPSweepKey, cs.Nth, 0, targets)
	}
	if !e.sw.waitFor(func() bool { return e.sw.reached }, 6*time.Second) {
		r.Inconc(1)
		return
	}
	if !time.Now().After(t1.Add(ttl)) {
		r.Inconc(1) // cannot happen (the bucket is swept after it has passed); kept for soundness
		return
	}
	e.tr("sweep held at %s; observing", cs.Position)
	for k := 0; k < cs.NKeys; k++ {
		if v, ok := cl.Get(k); ok {
			e.fail("served-after-expiry/get-during-sweep", fmt.Sprintf("Get(key %d) returned %#x while the sweep of its bucket was in progress, %v after the latest possible expiration", k, v, time.Since(t1.Add(ttl)).Round(time.Millisecond)))
			break
		}
		if d, ok := cl.GetTTL(k); ok {
			e.fail("served-after-expiry/getttl-during-sweep", fmt.Sprintf("GetTTL(key %d) = (%v, true) while the sweep of its bucket was in progress", k, d))
			break
		}
	}
	seenCtl := false
	for _, v := range cl.IterValues(-1) {
		if vals[v] {
			e.fail("served-after-expiry/iter-during-sweep", fmt.Sprintf("IterValues yielded %#x while the sweep of its bucket was in progress, %v after the latest possible expiration", v, time.Since(t1.Add(ttl)).Round(time.Millisecond)))
		}
		if v == ctlVal {
			seenCtl = true
		}
	}
	if !seenCtl {
		e.fail("hidden-before-expiry/iter-during-sweep", "IterValues did not yield the key written without ttl")
	}
	if v, ok := cl.Get(ctlKey); !ok || v != ctlVal {
		e.fail("hidden-before-expiry/get-during-sweep", "the key written without ttl is not retrievable during the sweep")
	}
	// a fresh TTL written while the sweep is in progress must not be cut short by that sweep (or the next one)
	fresh := cl.NextVal(0)
	const freshTTL = 900 * time.Millisecond
	f0 := time.Now()
	accepted := cl.Set(0, fresh, 1, freshTTL)
	e.sw.releaseHold()
	// If the sweep had already collected key 0, this write is a NEW item: it becomes visible when the applier - the
	// goroutine that is running the sweep - gets to it. Only after Wait is its visibility promised.
	cl.Wait()
	if !accepted {
		r.Inconc(1)
		return
	}
	for _, at := range []time.Duration{100, 300, 500, 700} {
		time.Sleep(time.Until(f0.Add(at * time.Millisecond)))
		v, ok := cl.Get(0)
		if g1 := time.Now(); g1.Before(f0.Add(freshTTL)) {
			r.Obs("observations_of_fresh_ttl_written_during_sweep", 1)
			if !ok || v != fresh {
				e.fail("hidden-before-expiry/fresh-ttl-written-during-sweep", fmt.Sprintf("key re-written with ttl %v while the sweep was %s: Get %v later = (%#x,%v), %v before the earliest possible expiration", freshTTL, cs.Position, g1.Sub(f0).Round(time.Millisecond), v, ok, f0.Add(freshTTL).Sub(g1).Round(time.Millisecond)))
				break
			}
		}
	}
	for _, ob := range []string{"get", "getttl", "iter"} {
		r.DistinctKey("c07d/%s/%d/%s", cs.Position, cs.Nth, ob)
	}
	r.Obs("observations_during_held_sweep", int64(3*cs.NKeys))
}

// c14Backlog: "every entry whose TTL has elapsed is eventually removed ... as long as the cache keeps processing
// writes" under a SUSTAINED write backlog: writers keep the write buffer non-empty at every ticker instant (tiny
// capacity, every admission evicts and runs a slow OnEvict in the applier). Bounded restatement: once the entry's
// bucket has been sweepable for 3 s (six ticker periods) and the applier has applied at least 1000 items in that
// time, the entry must have been reclaimed (a pending tick is chosen by the applier's select with probability 1/2
// at every item, so 1000 items without a sweep cannot happen on correct code).
func c14Backlog(c *Ctx, cs c14Case) {
	r := c.R
	r.Eval(1)
	c.J.Case(cs)
	nk := 4096
	cfg := lab.CacheCfg{NumCounters: 100000, MaxCost: 8, BufferItems: 64, IgnoreInternalCost: true, KeyKind: "uint64", NKeys: nk, TTLTick: 1, SetBuf: 256}
	l, err := lab.NewLab(cfg)
	if err != nil {
		r.Inconc(1)
		return
	}
	defer l.Forget()
	e := &c14Env{c: c, cs: cs, l: l, cl: l.NewClient()}
	var applied atomic.Int64
	l.SetHook(func(point int, arg uint64) {
		if point == ristretto.VPApplierItemDone {
			applied.Add(1)
		}
	})
	l.CbDelay = func(kind int) {
		if kind == lab.EvOnEvict {
			end := time.Now().Add(20 * time.Microsecond)
			for time.Now().Before(end) {
			}
		}
	}
	cl := e.cl
	sentinel := 0
	// the sentinel is hot, so capacity evictions never choose it: only expiry processing can reclaim it
	l.C.Increment(l.Hashes[sentinel][0], 40)
	alignToBucket()
	const ttl = 300 * time.Millisecond
	v := cl.NextVal(sentinel)
	t1 := time.Now()
	if !cl.Set(sentinel, v, 1, ttl) {
		r.Inconc(1)
		l.C.Close()
		return
	}
	cl.Wait()
	t1 = time.Now()
	sweepable := time.Unix(ristretto.VerifStorageBucket(t1.Add(ttl)), 0) // bucket b is swept once the wall clock reaches second b
	stop := make(chan struct{})
	var wg sync.WaitGroup
	for w := 0; w < 8; w++ {
		wg.Add(1)
		cw := l.NewClient()
		go func(w int, cw *lab.Client) {
			defer wg.Done()
			rng := lab.NewRNG(c.Seed, cs.Stream*17+uint64(w))
			for {
				select {
				case <-stop:
					return
				default:
				}
				k := 1 + rng.Intn(nk-1)
				cw.Set(k, cw.NextVal(k), 1, 0)
				if len(cw.Log) > 300000 {
					cw.Log = cw.Log[:0] // keep the log bounded; the oracle below does not need it
				}
			}
		}(w, cw)
	}
	// wait until the bucket has been sweepable for 3 s, then look
	for time.Now().Before(sweepable.Add(200 * time.Millisecond)) {
		time.Sleep(20 * time.Millisecond)
	}
	a0 := applied.Load()
	time.Sleep(3 * time.Second)
	a1 := applied.Load()
	l.C.Pause()
	snap := l.C.Snapshot()
	l.C.Resume()
	close(stop)
	wg.Wait()
	_, accounted := snap.KeyCosts[l.Hashes[sentinel][0]]
	stored := false
	for _, en := range snap.Entries {
		if en.Value == v {
			stored = true
		}
	}
	ev, ex := valueEvents(l.CallbacksSince(0), v)
	r.Obs("backlog_cases", 1)
	r.Obs("backlog_items_applied_in_window", a1-a0)
	e.tr("bucket sweepable at %v; %d items applied in the 3 s window; sentinel stored=%v accounted=%v OnEvict=%d OnExit=%d; buffer length at the end %d", sweepable.Format("15:04:05"), a1-a0, stored, accounted, ev, ex, snap.SetBufLen)
	switch {
	case a1-a0 < 1000:
		r.Inconc(1)
		r.Note("C14 backlog: only %d items applied in the window (machine stalled?)", a1-a0)
	case stored || accounted || ev != 1 || ex != 1:
		e.fail("expired-entry-not-reclaimed-under-write-load", fmt.Sprintf("an entry whose ttl (%v) elapsed has been sweepable for 3 s while the applier applied %d items, but it is still stored=%v accounted=%v (OnEvict=%d OnExit=%d): expiry processing is starved while writes are pending", ttl, a1-a0, stored, accounted, ev, ex))
	default:
		r.DistinctKey("backlog/reclaimed/%d", min(int((a1-a0)/20000), 5))
	}
	cl.Wait()
	l.C.Close()
	if !e.bad {
		r.Sample(1, map[string]any{"case": cs, "trace": e.trace})
	}
}

// c14AfterClear: "after Clear ... the cache accepts and serves new writes as a fresh one would" for TTL entries: an
// entry written with a short TTL after 0, 1 or 2 Clears must be reclaimed by expiry processing like on a fresh
// cache. Verdict in wall time with a canary (a ticker-driven sweep that never comes cannot be counted in sweeps):
// 4 s after the entry's bucket became sweepable (8 ticker periods of an idle applier) it must be gone, unless the
// canary saw the process stall.
func c14AfterClear(c *Ctx, cs c14Case) {
	r := c.R
	r.Eval(1)
	c.J.Case(cs)
	e := newC14Env(c, cs, 4, 0)
	if e == nil {
		return
	}
	defer e.l.Forget()
	l, cl := e.l, e.cl
	defer l.C.Close()
	canary := lab.NewWatchdog(1, time.Hour, func(string, bool, string) {})
	defer canary.Stop()
	nclears := cs.Nth
	for i := 0; i < nclears; i++ {
		cl.Set(1, cl.NextVal(1), 1, 0)
		cl.Set(2, cl.NextVal(2), 1, 200*time.Millisecond)
		cl.Wait()
		cl.Clear()
	}
	alignToBucket()
	const ttl = 300 * time.Millisecond
	v := cl.NextVal(0)
	if !cl.Set(0, v, 1, ttl) {
		r.Inconc(1)
		return
	}
	cl.Wait()
	t1 := time.Now()
	sweepable := time.Unix(ristretto.VerifStorageBucket(t1.Add(ttl)), 0)
	for time.Now().Before(sweepable.Add(4 * time.Second)) {
		time.Sleep(50 * time.Millisecond)
	}
	l.C.Pause()
	snap := l.C.Snapshot()
	l.C.Resume()
	_, accounted := snap.KeyCosts[l.Hashes[0][0]]
	stored := false
	for _, en := range snap.Entries {
		if en.Value == v {
			stored = true
		}
	}
	ev, ex := valueEvents(l.CallbacksSince(0), v)
	e.tr("%d Clear(s) before; entry with ttl %v sweepable since %v; stored=%v accounted=%v OnEvict=%d OnExit=%d; sweeps completed %d; canary max late %d ms", nclears, ttl, sweepable.Format("15:04:05"), stored, accounted, ev, ex, e.sw.sweepCount(), canary.MaxLateMs())
	r.Obs("after_clear_cases", 1)
	switch {
	case canary.MaxLateMs() > 1000:
		r.Inconc(1)
	case stored || accounted || ev != 1 || ex != 1:
		e.fail(fmt.Sprintf("expired-entry-not-reclaimed-after-%d-clears", nclears), fmt.Sprintf("an entry written with ttl %v after %d Clear(s) has been sweepable for 4 s on an idle cache but is still stored=%v accounted=%v (OnEvict=%d OnExit=%d, %d sweeps completed since creation): the cache does not expire entries as a fresh one would", ttl, nclears, stored, accounted, ev, ex, e.sw.sweepCount()))
	default:
		r.DistinctKey("after-clear/%d/reclaimed", nclears)
	}
}

// c14SetAfterSweep: entries of cost 0, 1 and 3 (the cache ignores the internal cost, so 0 is a legal accounted cost)
// expire and are swept on an idle cache; C14: each must then be gone from the store AND from the accounting, reported
// once; C06: the same keys written again (ample capacity) must be retrievable after Wait.
func c14SetAfterSweep(c *Ctx, cs c14Case) {
	r := c.R
	r.Eval(1)
	c.J.Case(cs)
	e := newC14Env(c, cs, 4, 0)
	if e == nil {
		return
	}
	defer e.l.Forget()
	l, cl := e.l, e.cl
	defer l.C.Close()
	canary := lab.NewWatchdog(1, time.Hour, func(string, bool, string) {})
	defer canary.Stop()
	costs := []int64{0, 1, 3}
	if cs.Nth%2 == 1 {
		costs = []int64{0, 0, 0}
	}
	alignToBucket()
	const ttl = 300 * time.Millisecond
	vals := make([]uint64, len(costs))
	for k, cost := range costs {
		vals[k] = cl.NextVal(k)
		if !cl.Set(k, vals[k], cost, ttl) {
			r.Inconc(1)
			return
		}
	}
	cl.Wait()
	t1 := time.Now()
	sweepable := time.Unix(ristretto.VerifStorageBucket(t1.Add(ttl)), 0)
	swept := func() bool {
		for _, v := range vals {
			if ev, _ := valueEvents(l.CallbacksSince(0), v); ev == 0 {
				return false
			}
		}
		return true
	}
	for time.Now().Before(sweepable.Add(4*time.Second)) && !swept() {
		time.Sleep(50 * time.Millisecond)
	}
	if !swept() {
		// bounded progress for cost 1 is decided by the after-clear case; here it is only a precondition
		r.Inconc(1)
		if canary.MaxLateMs() <= 1000 && c14Prop == "C14" {
			e.fail("expired-entry-not-reclaimed", fmt.Sprintf("entries of cost %v with ttl %v, sweepable for 4 s on an idle cache, were not all reported through OnEvict", costs, ttl))
		}
		return
	}
	time.Sleep(20 * time.Millisecond) // the sweep removes the key from the accounting right after the callback of its value
	l.C.Pause()
	snap := l.C.Snapshot()
	l.C.Resume()
	r.Obs("set_after_sweep_cases", 1)
	if mt := l.C.Metrics(); mt != nil && c14Prop == "C17" {
		rc := l.C.RemainingCost()
		if d := int64(mt.KeysAdded() - mt.KeysEvicted()); d != int64(len(snap.Entries)) {
			e.fail("keys-added-minus-evicted/after-expiry", fmt.Sprintf("entries of cost %v expired and were swept: KeysAdded-KeysEvicted=%d-%d=%d but %d keys are resident in the map", costs, mt.KeysAdded(), mt.KeysEvicted(), d, len(snap.Entries)))
			return
		}
		if d := int64(mt.CostAdded() - mt.CostEvicted()); d != snap.MaxCost-rc {
			e.fail("cost-added-minus-evicted/after-expiry", fmt.Sprintf("entries of cost %v expired and were swept: CostAdded-CostEvicted=%d but MaxCost-RemainingCost()=%d", costs, d, snap.MaxCost-rc))
			return
		}
		r.Obs("metric_laws_checked_after_expiry", 1)
	}
	for k, v := range vals {
		_, accounted := snap.KeyCosts[l.Hashes[k][0]]
		stored := false
		for _, en := range snap.Entries {
			if en.Value == v {
				stored = true
			}
		}
		ev, ex := valueEvents(l.CallbacksSince(0), v)
		e.tr("key %d cost %d: stored=%v accounted=%v OnEvict=%d OnExit=%d", k, costs[k], stored, accounted, ev, ex)
		if stored || accounted || ev != 1 || ex != 1 {
			e.fail("swept-entry-left-behind", fmt.Sprintf("entry of key %d (cost %d, ttl %v) was reported by the sweep but afterwards stored=%v accounted=%v OnEvict=%d OnExit=%d", k, costs[k], ttl, stored, accounted, ev, ex))
			if c14Prop == "C14" {
				return
			}
		}
	}
	for k := range vals {
		nv := cl.NextVal(k)
		if !cl.Set(k, nv, 1, 0) {
			r.Inconc(1)
			return
		}
		cl.Wait()
		got, ok := cl.Get(k)
		if !ok || got != nv {
			e.fail("set-after-sweep-lost", fmt.Sprintf("key %d expired with cost %d and was swept; a later Set (cost 1, capacity %d, nearly empty) returned true, Wait returned, Get = (%#x, %v), want (%#x, true)", k, costs[k], snap.MaxCost, got, ok, nv))
			return
		}
	}
	r.DistinctKey("set-after-sweep/%v", costs)
}

// c14StaleRewrite: a SetWithTTL of a resident key computes its expiration, is then delayed inside the user's
// KeyToHash for more than one bucket duration, and reaches the store while a sweep is in progress (held right after
// it detached its buckets, or before/after a key's check). The expiration it carries lies in a bucket the running
// sweep covers. The entry is expired, so it must be reclaimed - exactly once, cost released - once a later sweep has
// completed (bounded progress as in the other directed cases).
func c14StaleRewrite(c *Ctx, cs c14Case) {
	r := c.R
	r.Eval(1)
	cs.Position = []string{"after-grab", "before-check", "between-check-and-removal"}[cs.Nth%3]
	c.J.Case(cs)
	var gateOn atomic.Bool
	release := make(chan struct{})
	inHook := make(chan struct{}, 1)
	const nkeys = 3
	ctlKey := nkeys
	cfg := lab.CacheCfg{NumCounters: 1000, MaxCost: 1 << 20, BufferItems: 64, IgnoreInternalCost: true, KeyKind: "uint64", NKeys: nkeys + 1, TTLTick: 1,
		HashHook: func(i int) {
			if i == ctlKey && gateOn.CompareAndSwap(true, false) {
				inHook <- struct{}{}
				<-release
			}
		}}
	l, err := lab.NewLab(cfg)
	if err != nil {
		r.Inconc(1)
		return
	}
	defer l.Forget()
	e := &c14Env{c: c, cs: cs, l: l, cl: l.NewClient()}
	e.sw = newSweepCtl(l, false, nil)
	cl := e.cl
	released := false
	defer func() {
		if !released {
			close(release)
		}
		e.sw.releaseHold()
		l.C.Close()
	}()
	ctlVal := cl.NextVal(ctlKey)
	cl.Set(ctlKey, ctlVal, 1, 0)
	cl.Wait()
	alignToBucket()
	const ttl = 300 * time.Millisecond
	t0 := time.Now()
	targets := map[uint64]bool{}
	for k := 0; k < nkeys; k++ {
		if !cl.Set(k, cl.NextVal(k), 1, ttl) {
			r.Inconc(1)
			return
		}
		targets[l.Hashes[k][0]] = true
	}
	cl.Wait()
	bucket := uint64(ristretto.VerifStorageBucket(t0.Add(ttl)))
	// the delayed re-write of the control key: its expiration is fixed now (t0 + a few ms + 10 ms)
	writer := l.NewClient()
	newVal := writer.NextVal(ctlKey)
	gateOn.Store(true)
	setDone := make(chan bool, 1)
	go func() { setDone <- writer.Set(ctlKey, newVal, 1, 10*time.Millisecond) }()
	select {
	case <-inHook:
	case <-time.After(10 * time.Second):
		r.Inconc(1)
		return
	}
	e.tr("re-write of the control key (ttl 10 ms) is parked inside KeyToHash; its expiration lies in bucket <= %d", bucket)
	switch cs.Position {
	case "after-grab":
		e.sw.arm(ristretto.VPSweepGrabbed, 1, bucket, nil)
	case "before-check":
		e.sw.arm(ristretto.VPSweepKey, 1+cs.Nth%nkeys, 0, targets)
	default:
		e.sw.arm(ristretto.VPSweepChecked, 1+cs.Nth%nkeys, 0, targets)
	}
	if !e.sw.waitFor(func() bool { return e.sw.reached }, 6*time.Second) {
		r.Inconc(1)
		r.Note("C14 stale re-write: sweep hold point %s never reached", cs.Position)
		return
	}
	e.tr("sweep held at %s", cs.Position)
	close(release)
	released = true
	var ok bool
	select {
	case ok = <-setDone:
	case <-time.After(10 * time.Second):
		r.Inconc(1)
		return
	}
	e.tr("the parked SetWithTTL returned %v while the sweep is held", ok)
	s0 := e.sw.sweepCount()
	var f0 int64
	e.sw.waitFor(func() bool { f0 = e.sw.frontier; return true }, time.Second) // frontier of the held sweep (read under the lock)
	e.sw.releaseHold()
	if !ok {
		r.Inconc(1)
		return
	}
	// Bounded progress as in the other directed cases: the entry may legitimately be filed under the next bucket to
	// be cleaned (frontier of the running sweep + 1). It must be gone once a sweep whose frontier covers that bucket
	// has completed. (Counting sweeps is not enough: two ticks can fall into the same bucket.)
	if !e.sw.waitFor(func() bool { return e.sw.frontier >= f0+1 }, 8*time.Second) {
		r.Inconc(1)
		return
	}
	s1 := e.sw.sweepCount()
	if !e.sw.waitFor(func() bool { return e.sw.sweeps > s1 }, 4*time.Second) {
		r.Inconc(1)
		return
	}
	cl.Wait()
	l.C.Pause()
	snap := l.C.Snapshot()
	l.C.Resume()
	ev, ex := valueEvents(l.CallbacksSince(0), newVal)
	_, acc := snap.KeyCosts[l.Hashes[ctlKey][0]]
	stored := false
	for _, en := range snap.Entries {
		if en.Value == newVal {
			stored = true
		}
	}
	r.Obs("stale_rewrite_cases", 1)
	if ev != 1 || ex != 1 || acc || stored {
		idx := "none"
		for b, keys := range snap.Buckets {
			if _, in := keys[l.Hashes[ctlKey][0]]; in {
				idx = fmt.Sprint(b)
			}
		}
		e.fail("stale-rewrite-not-reclaimed/"+cs.Position, fmt.Sprintf("a re-write with ttl 10 ms was delayed inside KeyToHash and reached the store while the sweep was %s; its expiration passed seconds ago and %d sweeps have completed since, the last with a frontier beyond the next bucket to be cleaned at that time, but OnEvict=%d OnExit=%d stored=%v still-accounted=%v (indexed in bucket %s, sweep frontier %d)", cs.Position, e.sw.sweepCount()-s0, ev, ex, stored, acc, idx, snap.LastCleaned))
		return
	}
	r.DistinctKey("stale-rewrite/%s/reclaimed", cs.Position)
}
