package main

// C18 — access-frequency estimates: never under-count, saturate at 15 (+1 for
// the first-access mark), age by halving, clear zeroes, power-of-two sizing.
// Exact reference model of every 4-bit counter, compared with the real rows
// through the verif accessors.

import (
	"fmt"
	"runtime"
	"time"

	ristretto "github.com/dgraph-io/ristretto/v2"
	"verif/harness/lab"
)

func init() { registry["C18"] = runC18 }

func next2(x int64) int64 {
	p := int64(1)
	for p < x {
		p <<= 1
	}
	return p
}

// sketchModel is the reference: depth rows of per-counter values.
type sketchModel struct {
	rows [][]uint8
	seed []uint64
	mask uint64
}

func newSketchModel(s *ristretto.VerifSketch) *sketchModel {
	m := &sketchModel{mask: s.Mask()}
	for i := 0; i < s.Depth(); i++ {
		m.seed = append(m.seed, s.Seed(i))
		m.rows = append(m.rows, make([]uint8, len(s.Row(i))*2))
	}
	return m
}
func (m *sketchModel) incr(h uint64) {
	for i := range m.rows {
		n := (h ^ m.seed[i]) & m.mask
		if m.rows[i][n] < 15 {
			m.rows[i][n]++
		}
	}
}
func (m *sketchModel) est(h uint64) int64 {
	min := uint8(255)
	for i := range m.rows {
		if v := m.rows[i][(h^m.seed[i])&m.mask]; v < min {
			min = v
		}
	}
	return int64(min)
}
func (m *sketchModel) reset() {
	for i := range m.rows {
		for j := range m.rows[i] {
			m.rows[i][j] >>= 1
		}
	}
}
func (m *sketchModel) clear() {
	for i := range m.rows {
		for j := range m.rows[i] {
			m.rows[i][j] = 0
		}
	}
}

// compare returns a description of the first differing counter.
func (m *sketchModel) compare(s *ristretto.VerifSketch) string {
	for i := range m.rows {
		row := s.Row(i)
		if len(row)*2 != len(m.rows[i]) {
			return fmt.Sprintf("row %d length %d != %d", i, len(row)*2, len(m.rows[i]))
		}
		for j, want := range m.rows[i] {
			got := (row[j/2] >> (uint(j&1) * 4)) & 0x0f
			if got != want {
				return fmt.Sprintf("row %d counter %d = %d, model says %d", i, j, got, want)
			}
		}
	}
	return ""
}

func runC18(c *Ctx) {
	r := c.R
	r.Rule = "(a) exhaustive: all 256 byte values x both nibbles for increment, all 256 for reset, on the real rows; (b) sequences of Increment/Estimate/Reset/Clear over table sizes NumCounters>=2 compared counter-by-counter with an exact model, reset forced at every position class; (c) tinyLFU sequences with natural resets (bounds min(n,15)<=estimate<=16, monotonicity, halving, door cleared); (d) next2Power. distinct by (table size, op kind, counter value before the op, position class); non-trivial when some counter is non-zero"
	if c.Part == 0 {
		c18Bytes(c)
		c18Next2(c)
	}
	sizes := []int64{2, 3, 4, 5, 7, 8, 9, 15, 16, 17, 31, 32, 33, 63, 64, 65, 100, 1000, 1024, 4097}
	if c.Thorough() {
		sizes = append(sizes, 6, 10, 12, 127, 128, 129, 255, 256, 257, 5000, 65536, 100000)
	}
	if c.Part == c.NParts-1 {
		c18Cache(c)
	}
	reps := c.N(3, 16)
	stream := uint64(0)
	for rep := 0; rep < reps; rep++ {
		for _, nc := range sizes {
			stream += 2
			if int(stream/2)%c.NParts != c.Part {
				continue
			}
			c18SketchSeq(c, lab.NewRNG(c.Seed, 1800000+stream), nc, stream)
			c18Tiny(c, lab.NewRNG(c.Seed, 1800001+stream), nc, stream+1)
		}
	}
}

func c18Bytes(c *Ctx) {
	r := c.R
	c.J.Case("C18 exhaustive byte level")
	s := ristretto.VerifNewSketch(2)
	if got := len(s.Row(0)); got != 1 {
		r.Violate("C18/table-size", fmt.Sprintf("NumCounters=2: row has %d bytes, want 1", got), nil)
		return
	}
	for b := 0; b < 256; b++ {
		for _, h := range []uint64{0, 1} {
			for i := 0; i < s.Depth(); i++ {
				s.Row(i)[0] = byte(b)
			}
			s.Increment(h)
			for i := 0; i < s.Depth(); i++ {
				n := (h ^ s.Seed(i)) & s.Mask()
				lo, hi := byte(b)&0x0f, byte(b)>>4
				if n == 0 {
					if lo < 15 {
						lo++
					}
				} else if hi < 15 {
					hi++
				}
				want := hi<<4 | lo
				if got := s.Row(i)[0]; got != want {
					r.Violate("C18/byte-increment", fmt.Sprintf("byte %#02x, increment of nibble %d: got %#02x want %#02x", b, n, got, want), map[string]any{"byte": b, "nibble": n})
				}
				r.DistinctKey("inc/%d/%d", b, n)
			}
			r.Eval(1)
		}
		for i := 0; i < s.Depth(); i++ {
			s.Row(i)[0] = byte(b)
		}
		s.Reset()
		want := ((byte(b) >> 4) >> 1 << 4) | ((byte(b) & 0x0f) >> 1)
		for i := 0; i < s.Depth(); i++ {
			if got := s.Row(i)[0]; got != want {
				r.Violate("C18/byte-reset", fmt.Sprintf("byte %#02x after reset: got %#02x want %#02x", b, got, want), map[string]any{"byte": b})
			}
		}
		r.DistinctKey("reset/%d", b)
		r.Eval(1)
		for i := 0; i < s.Depth(); i++ {
			s.Row(i)[0] = byte(b)
		}
		s.Clear()
		for i := 0; i < s.Depth(); i++ {
			if got := s.Row(i)[0]; got != 0 {
				r.Violate("C18/byte-clear", fmt.Sprintf("byte %#02x after clear: got %#02x", b, got), nil)
			}
		}
		r.Eval(1)
	}
	r.Exhaustive = append(r.Exhaustive, "256 byte values x 2 nibbles (increment), 256 byte values (reset, clear)")
}

func c18Next2(c *Ctx) {
	r := c.R
	c.J.Case("C18 next2Power")
	chk := func(x int64) {
		r.Eval(1)
		if got, want := ristretto.VerifNext2Power(x), next2(x); got != want {
			r.Violate("C18/next2power", fmt.Sprintf("next2Power(%d)=%d want %d", x, got, want), x)
		}
	}
	lim := int64(c.N(1<<16, 1<<20))
	for x := int64(1); x <= lim; x++ {
		chk(x)
	}
	for e := uint(1); e <= 62; e++ {
		p := int64(1) << e
		for _, d := range []int64{-2, -1, 0, 1, 2} {
			if x := p + d; x >= 1 && x <= 1<<62 {
				chk(x)
				r.DistinctKey("n2p/%d/%d", e, d)
			}
		}
	}
}

type c18Case struct {
	Kind   string   `json:"kind"`
	NC     int64    `json:"num_counters"`
	Stream uint64   `json:"stream"`
	Ops    int      `json:"ops"`
	Tail   []string `json:"trace_tail,omitempty"`
}

func c18SketchSeq(c *Ctx, rng *lab.RNG, nc int64, stream uint64) {
	r := c.R
	nops := lab.Pick(rng, []int{50, 500, 5000})
	cs := c18Case{Kind: "sketch", NC: nc, Stream: stream, Ops: nops}
	c.J.Case(cs)
	r.Eval(1)
	var trace []string
	fail := func(sig, d string) {
		cs.Tail = append([]string(nil), trace[max(0, len(trace)-20):]...)
		r.Violate(sig, fmt.Sprintf("NumCounters=%d: %s", nc, d), cs)
	}
	p := lab.Try(func() {
		s := ristretto.VerifNewSketch(nc)
		if got, want := int64(len(s.Row(0))*2), next2(nc); got != want || int64(s.Mask()) != want-1 {
			fail("C18/table-size", fmt.Sprintf("%d counters per row (mask %#x), want next power of two %d", got, s.Mask(), want))
			return
		}
		m := newSketchModel(s)
		// few keys so that counters saturate; plus random keys
		hot := make([]uint64, 1+rng.Intn(6))
		for i := range hot {
			hot[i] = rng.Uint64()
		}
		count := map[uint64]int{}
		for i := 0; i < nops; i++ {
			var h uint64
			if rng.Chance(0.8) {
				h = lab.Pick(rng, hot)
			} else {
				h = rng.Uint64()
			}
			switch op := rng.Intn(100); {
			case op < 90:
				before := s.Estimate(h)
				mb := m.est(h)
				// monotonicity over tracked keys
				var others [6]int64
				for j, k := range hot {
					others[j] = s.Estimate(k)
				}
				s.Increment(h)
				m.incr(h)
				count[h]++
				after := s.Estimate(h)
				trace = append(trace, fmt.Sprintf("Increment(%#x) est %d->%d", h, before, after))
				if after < before {
					fail("C18/estimate-decreased", fmt.Sprintf("Increment(%#x) lowered its estimate %d -> %d", h, before, after))
					return
				}
				for j, k := range hot {
					if e := s.Estimate(k); e < others[j] {
						fail("C18/estimate-decreased", fmt.Sprintf("Increment(%#x) lowered estimate of %#x: %d -> %d", h, k, others[j], e))
						return
					}
				}
				if n := count[h]; after < int64(min(n, 15)) || after > 15 {
					fail("C18/undercount", fmt.Sprintf("key %#x recorded %d times since the last reset/clear, estimate %d", h, n, after))
					return
				}
				if d := m.compare(s); d != "" {
					fail("C18/counter-mismatch", "after Increment: "+d)
					return
				}
				r.DistinctKey("%d/inc/%d", nc, mb)
			case op < 96:
				pos := "mid"
				if m.est(hot[0]) >= 15 {
					pos = "saturated"
				} else if m.est(hot[0]) == 0 {
					pos = "zero"
				}
				s.Reset()
				m.reset()
				for k := range count {
					count[k] /= 2 // lower bound only: halving rounds down per counter
				}
				trace = append(trace, "Reset()")
				if d := m.compare(s); d != "" {
					fail("C18/reset-not-halving", "after Reset: "+d)
					return
				}
				// after halving, a key's estimate is floor(old/2) exactly (model), nothing to bound via count
				count = map[uint64]int{}
				r.Obs("sketch_resets", 1)
				r.DistinctKey("%d/reset/%s", nc, pos)
			case op < 98:
				s.Clear()
				m.clear()
				count = map[uint64]int{}
				trace = append(trace, "Clear()")
				if d := m.compare(s); d != "" {
					fail("C18/clear-not-zero", "after Clear: "+d)
					return
				}
				r.DistinctKey("%d/clear", nc)
			default:
				if got, want := s.Estimate(h), m.est(h); got != want {
					fail("C18/estimate-mismatch", fmt.Sprintf("Estimate(%#x)=%d, model %d", h, got, want))
					return
				}
			}
		}
		r.Obs("sketch_sequences", 1)
	})
	if p != nil {
		fail("C18/panic/"+p.Short(), p.Msg+"\n"+p.Stack)
	}
}

func c18Tiny(c *Ctx, rng *lab.RNG, nc int64, stream uint64) {
	r := c.R
	nops := int(nc)*lab.Pick(rng, []int{1, 3, 7}) + rng.Intn(50)
	if nops > 30000 {
		nops = 30000
	}
	cs := c18Case{Kind: "tinylfu", NC: nc, Stream: stream, Ops: nops}
	c.J.Case(cs)
	r.Eval(1)
	var trace []string
	fail := func(sig, d string) {
		cs.Tail = append([]string(nil), trace[max(0, len(trace)-20):]...)
		r.Violate(sig, fmt.Sprintf("tinyLFU NumCounters=%d: %s", nc, d), cs)
	}
	p := lab.Try(func() {
		t := ristretto.VerifNewTinyLFU(nc)
		s := t.Sketch()
		m := newSketchModel(s)
		if got, want := int64(len(s.Row(0))*2), next2(nc); got != want {
			fail("C18/table-size", fmt.Sprintf("%d counters per row, want %d", got, want))
			return
		}
		hot := make([]uint64, 1+rng.Intn(5))
		for i := range hot {
			hot[i] = rng.Uint64()
		}
		count := map[uint64]int{}
		seenKeys := map[uint64]struct{}{}
		resets := 0
		doClear := func(where string) bool {
			t.Clear()
			m.clear()
			count = map[uint64]int{}
			trace = append(trace, "Clear() "+where)
			if d := m.compare(s); d != "" || t.Incrs() != 0 {
				fail("C18/clear-not-zero", "after clear ("+where+"): "+d)
				return false
			}
			for k := range seenKeys {
				if t.Estimate(k) != 0 {
					fail("C18/clear-not-zero", fmt.Sprintf("Estimate(%#x)=%d after clear (%s)", k, t.Estimate(k), where))
					return false
				}
			}
			r.DistinctKey("%d/tinyclear/%s", nc, where)
			return true
		}
		for i := 0; i < nops; i++ {
			var h uint64
			if rng.Chance(0.7) {
				h = lab.Pick(rng, hot)
			} else {
				h = rng.Uint64()
			}
			seenKeys[h] = struct{}{}
			doorBefore := t.DoorHas(h)
			incrsBefore := t.Incrs()
			var before [5]int64
			for j, k := range hot {
				before[j] = t.Estimate(k)
			}
			selfBefore := t.Estimate(h)
			if rng.Chance(0.9) {
				t.Increment(h)
			} else {
				t.Push([]uint64{h})
			}
			if doorBefore {
				m.incr(h)
			}
			count[h]++
			wasReset := t.Incrs() == 0 && incrsBefore+1 >= t.ResetAt()
			if t.Incrs() != incrsBefore+1 && !wasReset {
				fail("C18/incr-count", fmt.Sprintf("increment counter went %d -> %d (resetAt %d)", incrsBefore, t.Incrs(), t.ResetAt()))
				return
			}
			if wasReset {
				resets++
				m.reset()
				count = map[uint64]int{}
				trace = append(trace, fmt.Sprintf("Increment(%#x) -> aging reset #%d", h, resets))
				if d := m.compare(s); d != "" {
					fail("C18/reset-not-halving", "after aging reset: "+d)
					return
				}
				for k := range seenKeys {
					if t.DoorHas(k) {
						fail("C18/door-survives-reset", fmt.Sprintf("first-access mark of %#x survived the aging reset", k))
						return
					}
				}
				for k := range seenKeys {
					if e, w := t.Estimate(k), m.est(k); e != w {
						fail("C18/estimate-mismatch", fmt.Sprintf("after reset Estimate(%#x)=%d, halved model %d", k, e, w))
						return
					}
				}
				r.Obs("tiny_resets", 1)
				r.DistinctKey("%d/tinyreset/%d", nc, min(selfBefore, 16))
				// a clear that comes right after an aging reset: nothing has been recorded in the new window yet, but the
				// halved counters of the old one are still there
				if rng.Chance(0.3) && !doClear("right-after-aging-reset") {
					return
				}
				continue
			}
			after := t.Estimate(h)
			trace = append(trace, fmt.Sprintf("Increment(%#x) door=%v est %d->%d", h, doorBefore, selfBefore, after))
			if d := m.compare(s); d != "" {
				fail("C18/counter-mismatch", "after Increment: "+d)
				return
			}
			if n := count[h]; after < int64(min(n, 15)) || after > 16 {
				fail("C18/undercount", fmt.Sprintf("key %#x recorded %d times since the last reset, estimate %d (bounds min(n,15)..16)", h, n, after))
				return
			}
			if after < selfBefore {
				fail("C18/estimate-decreased", fmt.Sprintf("recording %#x lowered its estimate %d -> %d", h, selfBefore, after))
				return
			}
			for j, k := range hot {
				if e := t.Estimate(k); e < before[j] {
					fail("C18/estimate-decreased", fmt.Sprintf("recording %#x lowered estimate of %#x: %d -> %d", h, k, before[j], e))
					return
				}
			}
			r.DistinctKey("%d/tinyinc/%v/%d", nc, doorBefore, min(selfBefore, 16))
			if rng.Chance(0.002) && !doClear("mid-window") {
				return
			}
		}
		r.Obs("tiny_sequences", 1)
		r.Sample(3, map[string]any{"kind": "tinylfu", "num_counters": nc, "ops": nops, "aging_resets": resets, "trace_tail": trace[max(0, len(trace)-5):]})
	})
	if p != nil {
		fail("C18/panic/"+p.Short(), p.Msg+"\n"+p.Stack)
	}
}

// c18Cache: accesses recorded through the public API (Get -> batch -> policy goroutine) must show up in the
// estimate, on a fresh cache and after Clear. BufferItems = 1 makes every Get its own batch; a phase in which a
// batch was dropped (GetsDropped moved) is not judged.
func c18Cache(c *Ctx) {
	r := c.R
	for rep := 0; rep < c.N(6, 40); rep++ {
		for _, n := range []int{1, 3, 8, 20} {
			r.Eval(1)
			name := fmt.Sprintf("c18-cache-n%d-rep%d", n, rep)
			c.J.Case(name)
			l, err := lab.NewLab(lab.CacheCfg{NumCounters: 100000, MaxCost: 1000, BufferItems: 1, Metrics: true, IgnoreInternalCost: true, KeyKind: "uint64", NKeys: 8})
			if err != nil {
				r.Inconc(1)
				continue
			}
			cl := l.NewClient()
			for phase := 0; phase < 3; phase++ {
				if phase > 0 {
					cl.Set(1, cl.NextVal(1), 1, 0)
					cl.Wait()
					cl.Clear()
				}
				k := 2 + phase
				h := l.Hashes[k][0]
				m := l.C.Metrics()
				dropped0 := m.GetsDropped()
				for i := 0; i < n; i++ {
					cl.Get(k)
					// let the policy goroutine take the batch: its channel holds only 3
					for w := 0; w < 2000 && l.C.Snapshot().GetChLen > 0; w++ {
						runtime.Gosched()
					}
				}
				if m.GetsDropped() != dropped0 {
					r.Obs("cache_phases_with_dropped_batches", 1)
					continue
				}
				want := int64(min(n, 15))
				ok := false
				deadline := time.Now().Add(5 * time.Second)
				var est int64
				for time.Now().Before(deadline) {
					if est = l.C.Estimate(h); est >= want {
						ok = true
						break
					}
					time.Sleep(200 * time.Microsecond)
				}
				if !ok {
					r.Violate("C18/cache-undercount", fmt.Sprintf("[%s] %d accesses of a key were recorded through Get (none dropped) after %d Clear(s), but its estimate is %d (< %d) 5 s later", name, n, phase, est, want), name)
					break
				}
				if est > 16 {
					r.Violate("C18/estimate-above-16", fmt.Sprintf("[%s] estimate %d", name, est), name)
				}
				r.Obs("cache_phases_checked", 1)
				r.DistinctKey("cache/n%d/clears%d", n, phase)
			}
			l.C.Close()
			l.Forget()
		}
	}
}
