package main

// C12 — z.Allocator hands out disjoint, stable, exactly sized memory, also
// concurrently. Monitors: address-interval disjointness (n log n), fill
// patterns re-read at the end of each epoch, alignment/zero/copy checks,
// sequential replay after Reset, per-call watchdog; under vwork.race the race
// detector is a second, independent oracle for overlapping hand-outs.

import (
	"bytes"
	"fmt"
	"sort"
	"strings"
	"sync"
	"time"
	"unsafe"

	"github.com/dgraph-io/ristretto/v2/z"
	"verif/harness/lab"
)

func init() { registry["C12"] = runC12 }

type c12Case struct {
	Stream   uint64 `json:"stream"`
	Initial  int    `json:"initial_size"`
	Workers  int    `json:"goroutines"`
	PerW     int    `json:"calls_per_goroutine"`
	MaxReq   int    `json:"max_request"`
	Epochs   int    `json:"epochs"`
	Trim     []int  `json:"trim_to_before_reset,omitempty"`
	SizeDist string `json:"size_dist"`
}

type c12Rec struct {
	addr uintptr
	n    int
	tag  uint32
	kind uint8
}

func c12Pattern(tag uint32, i int) byte { return byte(tag*131 + uint32(i)*7 + 13) }

func runC12(c *Ctx) {
	r := c.R
	bulk := c.Arg == "bulk"
	r.Rule = "epochs of concurrent Allocate/AllocateAligned/Copy on one allocator (sizes straddling chunk boundaries, initial sizes, Reset and TrimTo;Reset between epochs), all returned address intervals sorted and checked for overlap, every fill pattern re-read at the end of the epoch, sequential same-order replay after Reset must not change Allocated(); distinct by (initial size, goroutines, size distribution, epoch index class, trim class, call kind, chunk-crossing seen); non-trivial when at least two slices were handed out"
	wd := lab.NewWatchdog(65, 60*time.Second, lab.HangExit(r, "C12", c.Out))
	defer wd.Stop()
	initials := []int{1, 511, 512, 513, 4096, 1 << 20}
	dists := []string{"tiny", "boundary", "heavy", "mixed"}
	n := c.N(36, 240)
	if bulk {
		n = c.N(24, 160)
	}
	for i := 0; i < n; i++ {
		if i%c.NParts != c.Part {
			continue
		}
		stream := uint64(i)
		rng := lab.NewRNG(c.Seed, 1200000+stream)
		cs := c12Case{Stream: stream, Initial: initials[i%len(initials)], SizeDist: dists[(i/len(initials))%len(dists)]}
		cs.Workers = lab.Pick(rng, []int{1, 1, 2, 4, 8, 16, 64})
		cs.Epochs = 2 + rng.Intn(4)
		if bulk {
			cs.MaxReq = 1 << 20
			cs.PerW = lab.Pick(rng, []int{50, 500, 5000})
		} else {
			cs.MaxReq = 64 << 10
			cs.PerW = lab.Pick(rng, []int{20, 200, 800})
		}
		for e := 0; e < cs.Epochs; e++ {
			switch rng.Intn(4) {
			case 0:
				cs.Trim = append(cs.Trim, 0) // no TrimTo before this Reset
			case 1:
				cs.Trim = append(cs.Trim, lab.Pick(rng, []int{1, 256, 512, 1024, 4096})) // at or below the first chunk
			default:
				cs.Trim = append(cs.Trim, lab.Pick(rng, []int{8 << 10, 64 << 10, 1 << 20, 16 << 20, 400 << 20}))
			}
		}
		c.J.Case(cs)
		c12One(c, wd, rng, cs, bulk)
	}
	r.Obs("max_canary_late_ms", wd.MaxLateMs())
}

func c12Sizes(rng *lab.RNG, cs c12Case, n int, budget int) []int {
	out := make([]int, 0, n)
	chunk := 512
	for chunk < cs.Initial {
		chunk <<= 1
	}
	total := 0
	for len(out) < n {
		var s int
		switch cs.SizeDist {
		case "tiny":
			s = lab.Pick(rng, []int{1, 1, 2, 7, 8, 9, 15, 16, 17, 31, 33})
		case "boundary":
			s = lab.Pick(rng, []int{1, 7, 8, 9, chunk - 1, chunk, chunk + 1, chunk/2 - 1, chunk / 2, chunk/2 + 1, 2*chunk + 1, 4*chunk + 1, 511, 512, 513})
		case "heavy":
			s = 1 + int(rng.Uint64()>>uint(44+rng.Intn(20)))
		default:
			switch rng.Intn(3) {
			case 0:
				s = 1 + rng.Intn(64)
			case 1:
				s = lab.Pick(rng, []int{chunk - 1, chunk, chunk + 1, 2*chunk + 1})
			default:
				s = 1 + int(rng.Uint64()>>uint(46+rng.Intn(18)))
			}
		}
		if s > cs.MaxReq {
			s = cs.MaxReq
		}
		if s < 1 {
			s = 1
		}
		if rng.Chance(0.01) {
			s = 0 // a zero-length request hands out nothing
		}
		if total+s > budget {
			s = 1 + rng.Intn(16)
		}
		total += s
		out = append(out, s)
	}
	return out
}

func c12One(c *Ctx, wd *lab.Watchdog, rng *lab.RNG, cs c12Case, bulk bool) {
	r := c.R
	r.Eval(1)
	failed := false
	var fmu sync.Mutex
	fail := func(sig, d string) {
		fmu.Lock()
		defer fmu.Unlock()
		if failed {
			return
		}
		failed = true
		r.Violate("C12/"+sig, fmt.Sprintf("initial=%d goroutines=%d dist=%s: %s", cs.Initial, cs.Workers, cs.SizeDist, d), cs)
	}
	var a *z.Allocator
	wd.Enter(64, fmt.Sprintf("NewAllocator(%d)", cs.Initial))
	a = z.NewAllocator(cs.Initial, "verif")
	wd.Leave(64)
	defer a.Release()
	budget := 12 << 20
	if bulk {
		budget = 80 << 20
	}
	for epoch := 0; epoch < cs.Epochs && !failed; epoch++ {
		perW := make([][]int, cs.Workers)
		kinds := make([][]uint8, cs.Workers)
		for w := range perW {
			perW[w] = c12Sizes(rng, cs, cs.PerW, budget/cs.Workers)
			kinds[w] = make([]uint8, cs.PerW)
			for i := range kinds[w] {
				kinds[w][i] = uint8(rng.Intn(3))
			}
		}
		recs := make([][]c12Rec, cs.Workers)
		slices := make([][][]byte, cs.Workers)
		var wg sync.WaitGroup
		allocatedBefore := a.Allocated()
		midTrim := epoch >= 1 && rng.Chance(0.5)
		for half := 0; half < 2; half++ {
			if half == 1 && midTrim && !failed {
				// TrimTo in the middle of an epoch, releasing only chunks BEYOND the one the position is in: everything
				// handed out so far stays live and later allocations must not overlap it
				if max, tail := c12TailTrim(a.String()); tail {
					wd.Enter(64, fmt.Sprintf("mid-epoch TrimTo(%d)", max))
					a.TrimTo(max)
					wd.Leave(64)
					r.Obs("mid_epoch_tail_trims", 1)
					r.DistinctKey("%d/mid-epoch-trim/%s", cs.Initial, cs.SizeDist)
				}
			}
			for w := 0; w < cs.Workers; w++ {
				wg.Add(1)
				go func(w int) {
					defer wg.Done()
					src := make([]byte, 0, 256)
					lo, hi := 0, len(perW[w])/2
					if half == 1 {
						lo, hi = len(perW[w])/2, len(perW[w])
					}
					for i := lo; i < hi; i++ {
						sz := perW[w][i]
						tag := uint32(epoch)<<28 | uint32(w)<<20 | uint32(i)
						var s []byte
						kind := kinds[w][i]
						p := lab.Try(func() {
							switch kind {
							case 0:
								wd.Enter(w, fmt.Sprintf("Allocate(%d) epoch %d", sz, epoch))
								s = a.Allocate(sz)
								wd.Leave(w)
							case 1:
								wd.Enter(w, fmt.Sprintf("AllocateAligned(%d) epoch %d", sz, epoch))
								s = a.AllocateAligned(sz)
								wd.Leave(w)
								if len(s) == sz && sz > 0 {
									if uintptr(unsafe.Pointer(&s[0]))%8 != 0 {
										fail("aligned-not-aligned", fmt.Sprintf("AllocateAligned(%d) returned address %p", sz, &s[0]))
									}
									for j := range s {
										if s[j] != 0 {
											fail("aligned-not-zeroed", fmt.Sprintf("AllocateAligned(%d) byte %d = %#x at return (epoch %d)", sz, j, s[j], epoch))
											break
										}
									}
								}
							case 2:
								if cap(src) < sz {
									src = make([]byte, sz)
								}
								src = src[:sz]
								for j := range src {
									src[j] = c12Pattern(tag, j)
								}
								wd.Enter(w, fmt.Sprintf("Copy(%d bytes) epoch %d", sz, epoch))
								s = a.Copy(src)
								wd.Leave(w)
								if len(s) == sz && !bytes.Equal(s, src) {
									fail("copy-differs", fmt.Sprintf("Copy of %d bytes returned different content", sz))
								}
							}
						})
						if p != nil {
							wd.Leave(w)
							fail("panic/"+p.Short(), fmt.Sprintf("call kind %d size %d: %s\n%s", kind, sz, p.Msg, p.Stack))
							return
						}
						if len(s) != sz {
							fail("wrong-length", fmt.Sprintf("requested %d bytes, got %d (kind %d)", sz, len(s), kind))
							return
						}
						if sz == 0 {
							continue // nothing handed out
						}
						for j := range s {
							s[j] = c12Pattern(tag, j)
						}
						recs[w] = append(recs[w], c12Rec{uintptr(unsafe.Pointer(&s[0])), sz, tag, kind})
						slices[w] = append(slices[w], s)
					}
				}(w)
			}
			wg.Wait()
		}
		if failed {
			return
		}
		// oracle 1: disjointness
		var all []c12Rec
		total := 0
		for _, rs := range recs {
			all = append(all, rs...)
			for _, x := range rs {
				total += x.n
			}
		}
		sort.Slice(all, func(i, j int) bool { return all[i].addr < all[j].addr })
		for i := 1; i < len(all); i++ {
			if all[i-1].addr+uintptr(all[i-1].n) > all[i].addr {
				fail("overlap", fmt.Sprintf("slices overlap: [%#x,+%d) tag %#x and [%#x,+%d) tag %#x (epoch %d)", all[i-1].addr, all[i-1].n, all[i-1].tag, all[i].addr, all[i].n, all[i].tag, epoch))
				return
			}
		}
		// oracle 2: stability of contents
		for w := range slices {
			for i, s := range slices[w] {
				tag := recs[w][i].tag
				if uintptr(unsafe.Pointer(&s[0])) != recs[w][i].addr {
					fail("moved", "slice header changed")
					return
				}
				for j := range s {
					if s[j] != c12Pattern(tag, j) {
						fail("overwritten", fmt.Sprintf("slice tag %#x (%d bytes, kind %d) byte %d changed after it was handed out (epoch %d)", tag, len(s), recs[w][i].kind, j, epoch))
						return
					}
				}
			}
		}
		if sz := a.Size(); sz < total {
			fail("size-too-small", fmt.Sprintf("Size()=%d after handing out %d bytes", sz, total))
			return
		}
		grew := a.Allocated() > allocatedBefore
		r.Obs("epochs", 1)
		r.Obs("slices_checked", int64(len(all)))
		r.Obs("bytes_handed_out", int64(total))
		if grew {
			r.Obs("epochs_acquiring_chunks", 1)
		}
		ec := epoch
		if ec > 2 {
			ec = 2
		}
		if len(all) >= 2 {
			r.DistinctKey("%d/%d/%s/e%d/grew=%v", cs.Initial, cs.Workers, cs.SizeDist, ec, grew)
		}
		// oracle 3: sequential same-order replay after Reset reuses the chunks
		if cs.Workers == 1 {
			allocated := a.Allocated()
			a.Reset()
			for i, sz := range perW[0] {
				wd.Enter(0, fmt.Sprintf("replay Allocate(%d)", sz))
				var s []byte
				switch kinds[0][i] {
				case 1:
					s = a.AllocateAligned(sz)
				default:
					s = a.Allocate(sz)
				}
				wd.Leave(0)
				if len(s) != sz {
					fail("wrong-length", fmt.Sprintf("replay: requested %d got %d", sz, len(s)))
					return
				}
			}
			if got := a.Allocated(); got != allocated {
				fail("replay-acquired-memory", fmt.Sprintf("replaying the same %d requests after Reset changed Allocated() %d -> %d", len(perW[0]), allocated, got))
				return
			}
			r.Obs("sequential_replays", 1)
			r.DistinctKey("%d/replay/%s", cs.Initial, cs.SizeDist)
		}
		// next epoch: (TrimTo;)Reset, as AllocatorPool does
		if t := cs.Trim[epoch]; t > 0 {
			wd.Enter(64, fmt.Sprintf("TrimTo(%d)", t))
			p := lab.Try(func() { a.TrimTo(t) })
			wd.Leave(64)
			if p != nil {
				fail("panic/"+p.Short(), "TrimTo: "+p.Msg)
				return
			}
			cls := "above-first-chunk"
			if t <= 4096 {
				cls = "at-or-below-first-chunk"
			}
			r.Obs("trims", 1)
			r.DistinctKey("%d/trim/%s", cs.Initial, cls)
		}
		a.Reset()
	}
	if !failed {
		r.Sample(3, cs)
	}
}

// c12TailTrim parses Allocator.String() ("idx: i len: n cum: c" lines and "bi: b pi: p") and returns a TrimTo
// argument that releases exactly the chunks beyond the one the position is in (false if there are none).
func c12TailTrim(desc string) (max int, tail bool) {
	cum := map[int]int{}
	last := -1
	bi := -1
	for _, line := range strings.Split(desc, "\n") {
		var i, n, c, b, p int
		if k, _ := fmt.Sscanf(line, "idx: %d len: %d cum: %d", &i, &n, &c); k == 3 {
			cum[i] = c
			if i > last {
				last = i
			}
		}
		if k, _ := fmt.Sscanf(line, "bi: %d pi: %d", &b, &p); k == 2 {
			bi = b
		}
	}
	if bi < 0 || last <= bi {
		return 0, false
	}
	return cum[bi] + 1, true
}
