package main

// C10 — z.Tree is a correct uint64 map with an exact DeleteBelow.
// C16 — a persistent z.Tree reopens to the same contents.
// One differential reference-model monitor (map[uint64]uint64) drives both:
// C16 additionally closes and reopens the tree at chosen points of the
// history and compares Stats. Built with checkptr. One page size per child.

import (
	"fmt"
	"math"
	"os"
	"path/filepath"
	"sort"

	"github.com/dgraph-io/ristretto/v2/z"
	"verif/harness/lab"
)

func init() {
	registry["C10"] = func(c *Ctx) { runTree(c, false) }
	registry["C16"] = func(c *Ctx) { runTree(c, true) }
}

var treePageSizes = []int{80, 96, 128, 256, 1024, 0 /* OS page size */}

type treeCase struct {
	Prop     string   `json:"property"`
	PageSize int      `json:"page_size"`
	Stream   uint64   `json:"stream"`
	Ops      int      `json:"ops"`
	KeyDist  string   `json:"key_dist"`
	ValDist  string   `json:"val_dist"`
	Persist  bool     `json:"persistent"`
	Fill     bool     `json:"fill_first"`              // no DeleteBelow until the first page-count boundary was crossed
	Move     bool     `json:"move_buffer_on_new_page"` // fault injection: the backing buffer moves at every fresh page allocation
	Tail     []string `json:"trace_tail,omitempty"`
}

const treeMaxKey = uint64(math.MaxUint64 - 1)

type treeMon struct {
	c           *Ctx
	rng         *lab.RNG
	cs          treeCase
	t           *z.Tree
	path        string
	ref         map[uint64]uint64
	ever        []uint64 // every key ever used
	everSet     map[uint64]struct{}
	byDB        map[uint64]uint64 // keys removed by the last DeleteBelow(s), with their value then
	trace       []string
	failed      bool
	prefix      string
	seqNext     uint64
	seqDown     uint64
	reopens     int
	sawBoundary bool
}

func (m *treeMon) tr(f string, a ...any) {
	m.trace = append(m.trace, fmt.Sprintf(f, a...))
	if len(m.trace) > 60 {
		m.trace = append(m.trace[:0], m.trace[30:]...)
	}
}

func (m *treeMon) fail(sig, detail string) {
	if m.failed {
		return
	}
	m.failed = true
	m.cs.Tail = append([]string(nil), m.trace[max(0, len(m.trace)-25):]...)
	m.c.R.Violate(m.prefix+"/"+sig, fmt.Sprintf("page=%d keys=%s vals=%s: %s", m.cs.PageSize, m.cs.KeyDist, m.cs.ValDist, detail), m.cs)
}

func (m *treeMon) use(k uint64) {
	if _, ok := m.everSet[k]; !ok {
		m.everSet[k] = struct{}{}
		m.ever = append(m.ever, k)
	}
}

func (m *treeMon) checkKey(k uint64, where string) bool {
	got := m.t.Get(k)
	want := m.ref[k]
	if got == want {
		return true
	}
	switch {
	case want == 0:
		if old, ok := m.byDB[k]; ok && old == got {
			m.fail("deletebelow-survivor", fmt.Sprintf("%s: Get(%d)=%d but the key was removed by DeleteBelow (its value %d was below the threshold)", where, k, got, old))
		} else {
			m.fail("get-phantom", fmt.Sprintf("%s: Get(%d)=%d, reference says absent", where, k, got))
		}
	case got == 0:
		m.fail("get-missing", fmt.Sprintf("%s: Get(%d)=0, reference says %d", where, k, want))
	default:
		m.fail("get-wrong-value", fmt.Sprintf("%s: Get(%d)=%d, reference says %d", where, k, got, want))
	}
	return false
}

func (m *treeMon) iterCheck(where string, rewrite bool) bool {
	seen := make(map[uint64]uint64, len(m.ref))
	dup := uint64(0)
	newVals := map[uint64]uint64{}
	m.t.IterateKV(func(k, v uint64) uint64 {
		if _, ok := seen[k]; ok {
			dup = k
		}
		seen[k] = v
		if rewrite && m.rng.Chance(0.3) {
			nv := m.genVal()
			newVals[k] = nv
			return nv
		}
		return 0
	})
	if dup != 0 {
		m.fail("iterate-duplicate", fmt.Sprintf("%s: IterateKV visited key %d twice", where, dup))
		return false
	}
	for k, v := range seen {
		want, ok := m.ref[k]
		if k == treeMaxKey && !ok {
			// the sentinel is never visited with a non-zero value unless the user set it
			m.fail("iterate-phantom", fmt.Sprintf("%s: IterateKV visited the sentinel key with value %d", where, v))
			return false
		}
		if !ok {
			if old, was := m.byDB[k]; was && old == v {
				m.fail("deletebelow-survivor", fmt.Sprintf("%s: IterateKV visited (%d,%d) but DeleteBelow removed that key", where, k, v))
			} else {
				m.fail("iterate-phantom", fmt.Sprintf("%s: IterateKV visited (%d,%d), reference says absent", where, k, v))
			}
			return false
		}
		if want != v {
			m.fail("iterate-wrong-value", fmt.Sprintf("%s: IterateKV visited (%d,%d), reference says %d", where, k, v, want))
			return false
		}
	}
	if len(seen) != len(m.ref) {
		for k, v := range m.ref {
			if _, ok := seen[k]; !ok {
				m.fail("iterate-missing", fmt.Sprintf("%s: IterateKV did not visit live pair (%d,%d) (%d visited, %d live)", where, k, v, len(seen), len(m.ref)))
				return false
			}
		}
	}
	for k, v := range newVals {
		m.ref[k] = v
	}
	if rewrite {
		for k := range newVals {
			if !m.checkKey(k, where+" after rewrite") {
				return false
			}
			break
		}
	}
	return true
}

// scale bounds the cost of O(n) checks on big trees: 1 for small trees, ~4000/n beyond.
func (m *treeMon) scale() float64 {
	if len(m.ever) <= 4000 {
		return 1
	}
	return 4000 / float64(len(m.ever))
}

func (m *treeMon) fullCheck(where string) bool {
	for _, k := range m.ever {
		if !m.checkKey(k, where) {
			return false
		}
	}
	m.c.R.Obs("full_checks", 1)
	return m.iterCheck(where, false)
}

func (m *treeMon) genVal() uint64 {
	switch m.cs.ValDist {
	case "small":
		return uint64(1 + m.rng.Intn(50))
	case "counter":
		m.seqNext++
		return m.seqNext
	case "wide":
		switch m.rng.Intn(6) {
		case 0:
			return 1
		case 1:
			return math.MaxUint64
		case 2:
			return math.MaxUint64 - uint64(m.rng.Intn(3))
		default:
			return 1 + m.rng.Uint64()>>uint(m.rng.Intn(60))
		}
	}
	return uint64(1 + m.rng.Intn(1000))
}

func (m *treeMon) genKey() uint64 {
	r := m.rng
	// occasionally the extremes, whatever the distribution
	switch r.Intn(400) {
	case 0:
		return 1
	case 1:
		return treeMaxKey
	case 2:
		return treeMaxKey - 1 - uint64(r.Intn(3))
	case 3:
		return 2 + uint64(r.Intn(3))
	}
	switch m.cs.KeyDist {
	case "seq_up":
		m.seqNext++
		return 1000 + m.seqNext
	case "seq_down":
		m.seqDown--
		return m.seqDown
	case "random":
		for {
			k := r.Uint64()
			if k >= 1 && k <= treeMaxKey {
				return k
			}
		}
	case "dense":
		return 1 + uint64(r.Intn(4000))
	case "boundary":
		// neighbours of existing keys: splits put node maxima at existing keys, so k±1 lands on both sides of a boundary
		if len(m.ever) > 0 && r.Chance(0.8) {
			k := lab.Pick(r, m.ever)
			d := uint64(1 + r.Intn(2))
			if r.Chance(0.5) && k > d {
				return k - d
			}
			if k < treeMaxKey-d {
				return k + d
			}
			return k
		}
		return 1 + r.Uint64()>>uint(1+r.Intn(50))
	}
	return 1 + uint64(r.Intn(1<<20))
}

func (m *treeMon) genThreshold() (uint64, string) {
	r := m.rng
	switch r.Intn(8) {
	case 0:
		return 1, "one"
	case 1:
		return math.MaxUint64, "max"
	case 2:
		return 0, "zero"
	}
	if len(m.ref) > 0 {
		// threshold tied to an existing value: v, v+1, v-1
		vals := make([]uint64, 0, 64)
		for _, v := range m.ref {
			vals = append(vals, v)
			if len(vals) == 64 {
				break
			}
		}
		sort.Slice(vals, func(i, j int) bool { return vals[i] < vals[j] })
		v := vals[r.Intn(len(vals))]
		switch r.Intn(3) {
		case 0:
			return v, "existing"
		case 1:
			if v < math.MaxUint64 {
				return v + 1, "existing+1"
			}
		case 2:
			if v > 1 {
				return v - 1, "existing-1"
			}
		}
		return v, "existing"
	}
	return uint64(r.Intn(100)), "random"
}

func (m *treeMon) open() bool {
	var err error
	if m.cs.Persist {
		p := lab.Try(func() { m.t, err = z.NewTreePersistent(m.path) })
		if p != nil {
			m.fail("reopen-panic/"+p.Short(), fmt.Sprintf("NewTreePersistent panicked: %s\n%s", p.Msg, p.Stack))
			return false
		}
		if err != nil {
			m.fail("reopen-error", err.Error())
			return false
		}
	} else {
		m.t = z.NewTree("verif")
	}
	return true
}

// statsEqual compares everything but the mapped size.
func statsEqual(a, b z.TreeStats) bool {
	a.Allocated, b.Allocated = 0, 0
	if math.IsNaN(a.Occupancy) && math.IsNaN(b.Occupancy) {
		a.Occupancy, b.Occupancy = 0, 0
	}
	return a == b
}

func (m *treeMon) reopen(why string) bool {
	before := m.t.Stats()
	m.tr("Close+reopen (%s) stats=%+v", why, before)
	if err := m.t.Close(); err != nil {
		m.fail("close-error", err.Error())
		return false
	}
	if !m.open() {
		return false
	}
	after := m.t.Stats()
	m.reopens++
	m.c.R.Obs("reopens", 1)
	m.c.R.Obs("reopens_"+why, 1)
	m.c.R.DistinctKey("%d/reopen/%s/free%d", m.cs.PageSize, why, min(before.NumPagesFree, 3))
	if !statsEqual(before, after) {
		m.fail("stats-differ-after-reopen", fmt.Sprintf("reopen (%s): stats before %+v after %+v", why, before, after))
		return false
	}
	return m.fullCheck("after reopen (" + why + ")")
}

func runTree(c *Ctx, persist bool) {
	r := c.R
	prop := "C10"
	if persist {
		prop = "C16"
	}
	r.Rule = "generated histories of Set/DeleteBelow/IterateKV-rewrite/Reset (C16: Set/DeleteBelow with clean close+reopen at random, post-recycle and page-count-boundary points) per page size, compared with a reference map after every operation on the touched key and in full periodically; distinct by (page size, operation kind, key distribution, value distribution, threshold class / reopen class, size decile); non-trivial when the tree holds at least one key"
	ps := treePageSizes[c.Part%len(treePageSizes)]
	if ps == 0 {
		ps = os.Getpagesize()
	}
	z.VerifSetPageSize(ps)
	nseq := c.N(30, 240)
	keyDists := []string{"seq_up", "seq_down", "random", "dense", "boundary"}
	valDists := []string{"small", "counter", "wide", "medium"}
	for i := 0; i < nseq; i++ {
		stream := uint64(c.Part)*100000 + uint64(i)
		rng := c.rng(1000 + stream)
		nops := lab.Pick(rng, []int{30, 300, 3000, 3000, 20000})
		if i%20 == 7 {
			nops = 120000 // crosses the 1 MiB buffer for every page size with sequential keys
		}
		cs := treeCase{Prop: prop, PageSize: ps, Stream: stream, Ops: nops, KeyDist: keyDists[i%len(keyDists)],
			ValDist: valDists[(i/len(keyDists))%len(valDists)], Persist: persist}
		if nops == 120000 {
			cs.KeyDist = lab.Pick(rng, []string{"seq_up", "seq_down", "random"})
			cs.Fill = true
		}
		if i%3 == 2 {
			// a page size drawn from the whole range (multiple of 16, at least 4 keys per node)
			cs.PageSize = 16 * rng.Range(5, os.Getpagesize()/16)
		}
		if !persist && (nops <= 3000 || (nops <= 20000 && cs.PageSize >= 512)) && i%2 == 0 {
			cs.Move = true
		}
		z.VerifSetPageSize(cs.PageSize)
		z.VerifSetTreeMoveOnNewNode(cs.Move)
		c.J.Case(cs)
		treeOne(c, rng, cs)
		z.VerifSetTreeMoveOnNewNode(false)
		if i%10 == 0 {
			c.J.Rewind()
		}
	}
}

func treeOne(c *Ctx, rng *lab.RNG, cs treeCase) {
	r := c.R
	r.Eval(1)
	m := &treeMon{c: c, rng: rng, cs: cs, ref: map[uint64]uint64{}, everSet: map[uint64]struct{}{}, byDB: map[uint64]uint64{},
		prefix: cs.Prop, seqDown: treeMaxKey - 1000}
	if cs.Persist {
		m.path = filepath.Join(c.TmpDir, fmt.Sprintf("tree-%d.bin", cs.Stream))
		os.Remove(m.path)
		defer os.Remove(m.path)
	}
	if !m.open() {
		return
	}
	defer func() {
		if m.t != nil {
			lab.Try(func() { m.t.Close() })
		}
	}()
	if cs.Persist && rng.Chance(0.3) {
		// reopen immediately after creation
		if !m.reopen("fresh") {
			return
		}
	}
	fullEvery := max(50, cs.Ops/8)
	p := lab.Try(func() {
		for i := 0; i < cs.Ops && !m.failed; i++ {
			dec := 0
			for n := len(m.ref); n > 0; n /= 4 {
				dec++
			}
			op := rng.Intn(1000)
			fillHi := 970
			if !cs.Persist {
				fillHi = 990 // in memory: also no Reset and no full iteration while filling, or the tree never outgrows its first buffer
			}
			if cs.Fill && !m.sawBoundary && i < 100000 && op >= 940 && op < fillHi {
				op = 0
			}
			switch {
			case op < 940:
				k, v := m.genKey(), m.genVal()
				m.tr("Set(%d,%d)", k, v)
				var sb z.TreeStats
				if cs.Persist {
					sb = m.t.Stats()
				}
				m.t.Set(k, v)
				m.ref[k] = v
				delete(m.byDB, k)
				m.use(k)
				if !m.checkKey(k, "after Set") {
					return
				}
				// a second, older key as a rotating sample
				if len(m.ever) > 1 {
					if !m.checkKey(m.ever[rng.Intn(len(m.ever))], "sample after Set") {
						return
					}
				}
				r.Obs("sets", 1)
				r.DistinctKey("%d/set/%s/%s/%d/%v", cs.PageSize, cs.KeyDist, cs.ValDist, dec, cs.Move)
				if cs.Persist {
					sa := m.t.Stats()
					if sa.NumPages > sb.NumPages && sa.NumPagesFree > 0 {
						m.fail("fresh-page-while-free-pages", fmt.Sprintf("Set grew NumPages %d->%d although %d recycled pages remain free", sb.NumPages, sa.NumPages, sa.NumPagesFree))
						return
					}
					if sa.NumPages > sb.NumPages && (sa.NumPages+2)*sa.PageSize > sa.Allocated {
						// the next page would not fit in the mapped length: page-count boundary of the file
						{
							// always: after a reopen the mapped length is the whole (doubled) file, so the next boundary only
							// comes when that file is full - and then the last page may fit EXACTLY
							m.sawBoundary = true
							if !m.reopen("page-boundary") {
								return
							}
						}
					}
				}
			case op < 970:
				ts, cls := m.genThreshold()
				m.tr("DeleteBelow(%d) [%s] live=%d", ts, cls, len(m.ref))
				var sb z.TreeStats
				if cs.Persist {
					sb = m.t.Stats()
				}
				m.t.DeleteBelow(ts)
				removed := 0
				var removedKeys []uint64
				for k, v := range m.ref {
					if v < ts {
						m.byDB[k] = v
						delete(m.ref, k)
						removed++
						if len(removedKeys) < 3000 {
							removedKeys = append(removedKeys, k)
						}
					}
				}
				r.Obs("deletebelows", 1)
				r.Obs("keys_removed_by_deletebelow", int64(removed))
				r.DistinctKey("%d/db/%s/%s/%d/%v", cs.PageSize, cs.ValDist, cls, dec, removed > 0)
				if len(m.ever) <= 3000 || rng.Chance(3000/float64(len(m.ever))) {
					if !m.fullCheck("after DeleteBelow") {
						return
					}
				} else {
					// bounded cost on big trees: every removed key (up to 3000) plus a random sample of survivors
					for _, k := range removedKeys {
						if !m.checkKey(k, "after DeleteBelow (removed key)") {
							return
						}
					}
					for j := 0; j < 1000; j++ {
						if !m.checkKey(m.ever[rng.Intn(len(m.ever))], "after DeleteBelow (sample)") {
							return
						}
					}
				}
				if cs.Persist {
					sa := m.t.Stats()
					if sa.NumPagesFree > sb.NumPagesFree && rng.Chance(0.7*m.scale()) {
						if !m.reopen("post-recycle") {
							return
						}
					}
				}
			case op < 985:
				rw := !cs.Persist && rng.Chance(0.6)
				m.tr("IterateKV(rewrite=%v) live=%d", rw, len(m.ref))
				if !m.iterCheck("IterateKV", rw) {
					return
				}
				r.Obs("iterates", 1)
				r.DistinctKey("%d/iter/%v/%d", cs.PageSize, rw, dec)
			case op < 990:
				if cs.Persist {
					if rng.Chance(m.scale()) && !m.reopen("random") {
						return
					}
				} else if rng.Chance(0.3) {
					m.tr("Reset()")
					m.t.Reset()
					m.ref = map[uint64]uint64{}
					m.byDB = map[uint64]uint64{}
					r.Obs("resets", 1)
					r.DistinctKey("%d/reset/%d", cs.PageSize, dec)
					if !m.fullCheck("after Reset") {
						return
					}
				}
			default:
				// probe a key that was never set / was deleted
				k := m.genKey()
				if !m.checkKey(k, "probe") {
					return
				}
			}
			if i%5000 == 4999 {
				r.ObsMax("max_tree_bytes", int64(m.t.Stats().Bytes))
			}
			if i%fullEvery == fullEvery-1 && (i < 20000 || rng.Chance(0.3)) {
				if !m.fullCheck("periodic") {
					return
				}
			}
		}
		if !m.failed {
			if cs.Persist {
				m.reopen("final")
			} else {
				m.fullCheck("final")
			}
		}
	})
	if p != nil {
		m.fail("panic/"+p.Short(), fmt.Sprintf("%s\n%s", p.Msg, p.Stack))
		return
	}
	if !m.failed {
		r.Sample(3, map[string]any{"page_size": cs.PageSize, "ops": cs.Ops, "key_dist": cs.KeyDist, "val_dist": cs.ValDist,
			"live_at_end": len(m.ref), "keys_ever": len(m.ever), "reopens": m.reopens, "trace_tail": m.trace[max(0, len(m.trace)-6):]})
	}
}
