package main

// C02 — a value the cache has let go of is never served again.
// (i) offline "hit after exit" edge of the life-cycle automaton over stress
// histories on few keys with probers and heavy delay injection; (ii) a
// porcupine linearizability check of overwrite/read histories on resident
// keys against a per-key register.

import (
	"fmt"
	"sync"
	"time"

	"github.com/anishathalye/porcupine"
	"verif/harness/lab"
)

func init() { registry["C02"] = runC02 }

func runC02(c *Ctx) {
	c.R.Rule = "(i) stress episodes on 1-8 keys with back-to-back probers, tiny to ample capacity, TTLs, Del/re-insert, concurrent Clear and delay injection at every hook point and inside callbacks; every hit is checked against the exit entries of its value; (ii) register sub-episodes: resident keys overwritten and read by 2-16 goroutines, history checked by porcupine per key; distinct = per-key 4-grams of event kinds per configuration / distinct register histories"
	n := c.N(32, 256)
	for i := 0; i < n; i++ {
		if i%c.NParts != c.Part {
			continue
		}
		rng := lab.NewRNG(c.Seed, 200000+uint64(i))
		if i%4 == 3 {
			c02Register(c, rng, uint64(i))
			continue
		}
		nk := lab.Pick(rng, []int{1, 2, 4, 8})
		o := stressOpts{
			Cfg: lab.CacheCfg{NumCounters: 100, MaxCost: lab.Pick(rng, []int64{1, 2, int64(nk), int64(nk * 10)}), BufferItems: lab.Pick(rng, []int64{1, 64}),
				IgnoreInternalCost: true, KeyKind: lab.Pick(rng, []string{"uint64", "string"}), NKeys: nk, TTLTick: 1, SetBuf: lab.Pick(rng, []int{0, 1, 4, 64})},
			Workers: lab.Pick(rng, []int{2, 4, 8, 16}), Probers: 2 + rng.Intn(3), Phases: 3,
			Mix:    map[string]int{"get": 20, "set": 40, "setttl": 10, "del": 12, "iter": 3, "wait": 3, "clear": 1},
			TTLsMs: []int{1, 3, 20, 1100}, CostMode: "one", DelayLevel: lab.Pick(rng, []float64{0.5, 1, 2}),
			EndWith: "close", Stream: uint64(i),
		}
		if i%2 == 0 {
			o.CostMode = "random" // costs 0..19, also above MaxCost: overwrites that the policy would turn away as new items
		}
		if i%3 == 1 && nk >= 2 {
			// keys colliding on the primary hash (different non-zero conflict hashes): a Del / overwrite / eviction aimed at
			// one key must never release - or keep serving - the value of the other
			o.Cfg.Collide = lab.Pick(rng, []int{1, 2})
		}
		if i%4 == 2 {
			// ShouldUpdate declines every other overwrite: a declined write must leave the resident value resident AND
			// un-released (it is still being served)
			o.Cfg.ShouldUpdate = "parity"
		}
		o.Name = fmt.Sprintf("c02-nk%d-cap%d-buf%d-w%d-d%.1f-collide%d-su%s", nk, o.Cfg.MaxCost, o.Cfg.SetBuf, o.Workers, o.DelayLevel, o.Cfg.Collide, o.Cfg.ShouldUpdate)
		o.OpsPerPhase = c.N(3000, 4000) / o.Workers
		c.J.Case(o)
		res := runStress(c, o)
		accountStress(c, "C02", o, res, stressChecks{HitAfterExit: true})
	}
}

type regIn struct {
	Key   int
	Write bool
	Val   uint64
}

var regModel = porcupine.Model{
	Partition: func(history []porcupine.Operation) [][]porcupine.Operation {
		m := map[int][]porcupine.Operation{}
		for _, op := range history {
			k := op.Input.(regIn).Key
			m[k] = append(m[k], op)
		}
		var out [][]porcupine.Operation
		for _, v := range m {
			out = append(out, v)
		}
		return out
	},
	Init: func() any { return uint64(0) },
	Step: func(st, in, out any) (bool, any) {
		e := in.(regIn)
		if e.Write {
			return true, e.Val
		}
		return out.(uint64) == st.(uint64), st
	},
	DescribeOperation: func(in, out any) string {
		e := in.(regIn)
		if e.Write {
			return fmt.Sprintf("Set(k%d,%#x)", e.Key, e.Val)
		}
		return fmt.Sprintf("Get(k%d)->%#x", e.Key, out.(uint64))
	},
}

// c02Register: keys made resident first (ample capacity, no TTL, no Del), then only overwritten and read.
func c02Register(c *Ctx, rng *lab.RNG, stream uint64) {
	r := c.R
	r.Eval(1)
	nk := 1 + rng.Intn(4)
	workers := lab.Pick(rng, []int{2, 4, 8, 16})
	cfg := lab.CacheCfg{NumCounters: 100, MaxCost: 1 << 20, BufferItems: 64, IgnoreInternalCost: true, KeyKind: lab.Pick(rng, []string{"uint64", "string"}),
		NKeys: nk, SetBuf: lab.Pick(rng, []int{0, 1, 4})}
	name := fmt.Sprintf("c02-register-nk%d-w%d-buf%d", nk, workers, cfg.SetBuf)
	c.J.Case(map[string]any{"name": name, "cfg": cfg, "stream": stream})
	l, err := lab.NewLab(cfg)
	if err != nil {
		r.Inconc(1)
		return
	}
	defer l.Forget()
	d := lab.NewDelayer(uint64(c.Seed)*31+stream, lab.Pick(rng, []float64{0.5, 1, 2}))
	l.CbDelay = func(int) { d.Maybe() }
	l.SetHook(func(int, uint64) { d.Maybe() })
	setup := l.NewClient()
	var ops []porcupine.Operation
	for k := 0; k < nk; k++ {
		v := setup.NextVal(k)
		t1 := l.Clk.Add(1)
		ok := l.C.SetWithTTL(k, v, 1, 0)
		t2 := l.Clk.Add(1)
		if !ok {
			r.Inconc(1)
			l.C.Close()
			return
		}
		l.C.Wait() // one at a time: with a write buffer of 1 a second new item would be dropped
		ops = append(ops, porcupine.Operation{ClientId: 0, Input: regIn{k, true, v}, Call: t1, Output: uint64(0), Return: t2})
	}
	l.C.Wait()
	for k := 0; k < nk; k++ {
		if _, ok := l.C.Get(k); !ok {
			// not resident (should not happen with ample capacity): not the situation this sub-episode is about
			r.Inconc(1)
			l.C.Close()
			return
		}
	}
	per := 120 / workers * nk
	if per < 8 {
		per = 8
	}
	var mu sync.Mutex
	var wg sync.WaitGroup
	for w := 0; w < workers; w++ {
		wg.Add(1)
		go func(w int) {
			defer wg.Done()
			cl := l.NewClientLocked(&mu)
			wr := lab.NewRNG(c.Seed, stream*977+uint64(w)+77)
			var mine []porcupine.Operation
			for i := 0; i < per; i++ {
				k := wr.Intn(nk)
				if wr.Chance(0.45) {
					v := cl.NextVal(k)
					t1 := l.Clk.Add(1)
					ok := l.C.SetWithTTL(k, v, 1, 0)
					t2 := l.Clk.Add(1)
					if ok {
						mine = append(mine, porcupine.Operation{ClientId: w + 1, Input: regIn{k, true, v}, Call: t1, Output: uint64(0), Return: t2})
					}
					// a refused overwrite of a resident key cannot happen (updates are never dropped); if it does the register check will show a lost write
				} else {
					t1 := l.Clk.Add(1)
					v, ok := l.C.Get(k)
					t2 := l.Clk.Add(1)
					if !ok {
						v = 0
					}
					mine = append(mine, porcupine.Operation{ClientId: w + 1, Input: regIn{k, false, 0}, Call: t1, Output: v, Return: t2})
				}
			}
			mu.Lock()
			ops = append(ops, mine...)
			mu.Unlock()
		}(w)
	}
	wg.Wait()
	l.C.Close()
	res, info := porcupine.CheckOperationsVerbose(regModel, ops, 60*time.Second)
	r.Obs("register_histories", 1)
	r.Obs("register_ops", int64(len(ops)))
	switch res {
	case porcupine.Ok:
		h := uint64(1469598103934665603)
		for _, op := range ops {
			in := op.Input.(regIn)
			x := uint64(in.Key)<<1 | 0
			if in.Write {
				x |= 1
			}
			h = (h ^ x ^ uint64(op.ClientId)<<8) * 1099511628211
		}
		r.DistinctHash(h)
		r.Sample(2, map[string]any{"episode": name, "ops": len(ops), "verdict": "linearizable"})
	case porcupine.Unknown:
		r.Inconc(1)
		r.Note("%s: porcupine timed out", name)
	case porcupine.Illegal:
		var lines []string
		_ = info
		for i, op := range ops {
			if i > 400 {
				break
			}
			lines = append(lines, fmt.Sprintf("c%d %s @[%d,%d]", op.ClientId, regModel.DescribeOperation(op.Input, op.Output), op.Call, op.Return))
		}
		r.Violate("C02/register-not-linearizable", fmt.Sprintf("[%s] the overwrite/read history of resident keys is not linearizable as a register (a stale value was read after a completed overwrite, or a write was lost)", name),
			map[string]any{"cfg": cfg, "history": lines})
	}
}
