#!/usr/bin/env python3
"""Driver for the runtime-monitoring checks (DESIGN.md section 3.2).

usage: check.py <property-id> [quick|thorough]
       check.py replay <replay-file>
       check.py build

Builds the workload binaries from /repo's current working tree (hooks on),
runs the property's child processes, classifies their outcomes, writes
/verif/evidence/<id>.json and prints the verdict lines.

exit 0: property held on everything observed (KNOWN-FINDING lines possible)
exit 1: at least one `VIOLATION property=<id> replay=<path>` line was printed
exit 2: the check itself is broken / inconclusive (build failure, harness
        crash, no observations, watchdog) - never reported as a pass
"""
import fnmatch
import hashlib
import json
import os
import re
import shutil
import subprocess
import sys
import time
from concurrent.futures import ThreadPoolExecutor

VERIF = os.path.dirname(os.path.abspath(__file__))
HARNESS = os.path.join(VERIF, "harness")
BIN = os.path.join(VERIF, "bin")
REPO = "/repo"
MOD = "github.com/dgraph-io/ristretto/v2"

ENV = dict(os.environ)
ENV["GOFLAGS"] = "-mod=mod"
ENV["GOPROXY"] = "off"
ENV.pop("GOSUMDB", None)
ENV.pop("GOTOOLCHAIN", None)
ENV.pop("GOMAXPROCS", None)

BUILD_FLAGS = {
    "race": ["-race", "-tags", "verif"],
    "ptr": ["-tags", "verif", "-gcflags=all=-d=checkptr"],
    "asan": ["-asan", "-tags", "verif"],  # thorough tier only (first build ~90 s): unsafe byte addressing in z/
}


def job(workload, bin="race", arg="", procs=0, timeout=None, parts=1):
    return dict(workload=workload, bin=bin, arg=arg, procs=procs, timeout=timeout, parts=parts)


# Per property: the child processes of each tier. `parts` children run the same
# workload with different -part values (each derives its own PRNG stream and
# takes its share of the deterministic case list).
def plan(pid, tier):
    T = tier == "thorough"
    P = {
        "C01": [job("C01", "race", timeout=1500, parts=8)],
        "C02": [job("C02", "race", timeout=1500, parts=8)],
        "C03": [job("C03", "race", timeout=1500, parts=8), job("GATED", "race", arg="C03", timeout=1500, parts=4), job("C03D", "race", timeout=900, parts=2)],
        "C04": [job("C04", "race", timeout=1500, parts=8), job("GATED", "race", arg="C04", timeout=1500, parts=4), job("C04K", "race", timeout=600), job("C04R", "race", timeout=600)],
        "C13": [job("C13", "race", timeout=1500, parts=8), job("GATED", "race", arg="C13", timeout=1500, parts=4)],
        "C17": [job("C17", "race", timeout=1500, parts=8), job("GATED", "race", arg="C17", timeout=1500, parts=4), job("C14", "race", arg="C17", timeout=900, parts=1)],
        "C05": [job("C05X", "race", timeout=1500, parts=8), job("GATED", "race", arg="C05", timeout=1500, parts=4), job("C05S", "race", timeout=1500, parts=6), job("C05C", "race", timeout=600)],
        "C06": [job("GATED", "race", arg="C06", timeout=1500, parts=8), job("C14", "race", arg="C06", timeout=1500, parts=2)],
        "C14": [job("C14", "race", timeout=1500, parts=4)],
        "C15": [job("GATED", "race", arg="C15", timeout=1500, parts=8), job("C15S", "race", timeout=1500, parts=4), job("C15D", "race", timeout=900, parts=2), job("C14", "race", arg="C15", timeout=900, parts=1)],
        "C07": [job("C07", "race", timeout=1500, parts=4), job("C07D", "race", timeout=900, parts=2)],
        "C08": [job("C08", "race", timeout=1500, parts=8)] + ([job("C08", "race", timeout=1500, parts=4, procs=p) for p in (1, 2, 4)] if T else []),
        "C09": [job("C09", "race", timeout=1500, parts=8)],
        "C10": [job("C10", "ptr", timeout=1500, parts=6)] + ([job("C10", "asan", timeout=1500, parts=6)] if T else []),
        "C11": [job("C11", "ptr", timeout=1500, parts=8)] + ([job("C11", "asan", arg="asan", timeout=1500, parts=4)] if T else []),
        "C12": [job("C12", "race", timeout=1500, parts=6), job("C12", "ptr", arg="bulk", timeout=1500, parts=6)],
        "C16": [job("C16", "ptr", timeout=1500, parts=6)],
        "C18": [job("C18", "ptr", timeout=1800, parts=8 if T else 2)],
        "C19": [job("C19", "ptr", timeout=900, parts=4 if T else 2)] + ([job("C19", "asan", arg="asan", timeout=900, parts=2)] if T else []),
        "C20": [job("C20", "ptr", timeout=600)],
    }
    return P.get(pid)


LEVEL_TEXT = {}
ASSUMPTIONS = {
    "*": [
        "verdict covers only the executions this run produced (runtime monitoring)",
        "the Go race detector / checkptr see only instrumented Go code",
        "hooks compiled with -tags verif do not change behaviour other than timing",
    ],
}


def sh(cmd, **kw):
    return subprocess.run(cmd, env=ENV, **kw)


def altmod():
    """VERIF_REPO_DIR=<dir> builds against a copy of the repository instead of /repo (used only for background
    sweeps that must not be disturbed by edits to /repo; registered checks always build /repo itself)."""
    d = os.environ.get("VERIF_REPO_DIR")
    if not d:
        return []
    mod = open(os.path.join(HARNESS, "go.mod")).read().replace("=> /repo", "=> " + d)
    alt = os.path.join(VERIF, ".work", "alt.%d.mod" % os.getpid())
    os.makedirs(os.path.dirname(alt), exist_ok=True)
    open(alt, "w").write(mod)
    shutil.copy(os.path.join(HARNESS, "go.sum"), alt[:-4] + ".sum")
    return ["-modfile=" + alt]


def build(kinds):
    os.makedirs(BIN, exist_ok=True)
    extra = altmod()
    for k in kinds:
        out = os.path.join(BIN, "vwork." + k)
        tmp = out + ".%d" % os.getpid()
        t0 = time.time()
        p = sh(["go", "build"] + extra + BUILD_FLAGS[k] + ["-o", tmp, "./cmd/vwork"], cwd=HARNESS,
               stdout=subprocess.PIPE, stderr=subprocess.STDOUT, text=True)
        if p.returncode != 0:
            sys.stdout.write(p.stdout)
            print("BROKEN build of vwork.%s from %s working tree (exit %d)" % (k, REPO, p.returncode))
            try:
                os.unlink(tmp)
            except OSError:
                pass
            sys.exit(2)
        os.replace(tmp, out)
        sys.stderr.write("built vwork.%s in %.1fs\n" % (k, time.time() - t0))


def classify_crash(log, journal_tail):
    """Returns (kind, signature, detail). kind in {'library','harness','timeout','unknown'}."""
    txt = log[-400000:]
    m = re.search(r"^(panic: .*|fatal error: .*|SIGSEGV.*|SIGBUS.*|unexpected fault address.*|.*Assertion failure.*|==\d+==ERROR: AddressSanitizer.*)$", txt, re.M)
    head = m.group(1).strip() if m else ""
    # first stack after the head
    tail = txt[m.start():] if m else txt
    frames = re.findall(r"^([\w./()*\[\]·\-]+(?:\[\.\.\.\])?)\(.*\)\n\t(\S+):(\d+)", tail, re.M)
    libframe = ""
    for fn, f, ln in frames:
        if fn.startswith(MOD) and "/verif_on" not in f:
            libframe = fn[len(MOD):]
            break
    cls = re.sub(r"\d+", "", head)[:70]
    if "Assertion failure" in head or "Assertion failure" in txt[-5000:]:
        # z.assert -> log.Fatalf: no goroutine dump; the frame comes from the %+v error (none) so use journal only
        return ("library", "crash/assert", "z assert (log.Fatalf): " + head)
    if "AddressSanitizer" in head:
        fr = re.findall(r"(github\.com/dgraph-io/ristretto/v2[\w./()*\[\]]+)", tail)
        return ("library", "crash/asan:%s" % (fr[0][len(MOD):] if fr else "?"), head)
    if libframe:
        return ("library", "crash/%s:%s" % (libframe, cls), head + " in " + libframe)
    if head:
        return ("harness", "harness-crash", head)
    return ("unknown", "child-died", txt[-300:])


def run_child(work, idx, j, part, tier, seed):
    name = "%s.%d.%d" % (j["workload"], idx, part)
    out = os.path.join(work, name + ".json")
    jr = os.path.join(work, name + ".journal")
    log = os.path.join(work, name + ".log")
    tmp = os.path.join(work, name + ".tmp")
    os.makedirs(tmp, exist_ok=True)
    to = 3 * (j["timeout"] or 1800) if tier == "thorough" else min(j["timeout"] or 600, 600)  # watchdogs only
    cmd = ["timeout", "-s", "QUIT", "-k", "20", str(to), os.path.join(BIN, "vwork." + j["bin"]),
           "-tier", tier, "-seed", str(seed), "-part", str(part), "-nparts", str(j["parts"]),
           "-out", out, "-journal", jr, "-tmp", tmp]
    if j["arg"]:
        cmd += ["-arg", j["arg"]]
    if j["procs"]:
        cmd += ["-procs", str(j["procs"])]
    cmd.append(j["workload"])
    env = dict(ENV)
    racelog = os.path.join(work, name + ".race")
    if j["bin"] == "race":
        env["GORACE"] = "halt_on_error=0 exitcode=0 log_path=%s history_size=3" % racelog
    t0 = time.time()
    with open(log, "wb") as lf:
        p = subprocess.run(cmd, env=env, stdout=lf, stderr=subprocess.STDOUT, cwd=work)
    shutil.rmtree(tmp, ignore_errors=True)
    res = None
    if os.path.exists(out):
        try:
            res = json.load(open(out))
        except Exception:
            res = None
    races = []
    for f in os.listdir(work):
        if f.startswith(name + ".race"):
            races.append(open(os.path.join(work, f), errors="replace").read())
    return dict(name=name, cmd=cmd, rc=p.returncode, res=res, log=log, journal=jr, wall=time.time() - t0,
                races="\n".join(races), job=j, part=part)


def race_reports(text):
    """Split race logs into reports and dedupe by the pair of outermost ristretto/harness frames."""
    reps = text.split("WARNING: DATA RACE")[1:]
    seen = {}
    for r in reps:
        stacks = re.split(r"\n\n", r)
        tops = []
        for s in stacks[:2]:
            fr = re.findall(r"^\s+([\w./()*\[\]·\-]+(?:\[\.\.\.\])?)\(\)", s, re.M)
            fr = [re.sub(r"\[\.\.\.\]", "", x) for x in fr]
            lib = [x for x in fr if x.startswith(MOD)]
            tops.append(lib[0][len(MOD):] if lib else (fr[0] if fr else "?"))
        key = " <-> ".join(sorted(tops))
        seen.setdefault(key, r[:3000])
    return len(reps), seen


def load_known():
    p = os.path.join(VERIF, "known_findings.json")
    if not os.path.exists(p):
        return []
    return json.load(open(p)).get("findings", [])


def main():
    if len(sys.argv) >= 2 and sys.argv[1] == "build":
        build(["race", "ptr"])
        return 0
    if len(sys.argv) >= 3 and sys.argv[1] == "replay":
        rp = json.load(open(sys.argv[2]))
        os.environ["VERIF_SEED"] = str(rp["seed"])
        ENV["VERIF_SEED"] = str(rp["seed"])
        sys.argv = [sys.argv[0], rp["property"], rp["tier"]]
        print("replaying %s (seed %s, tier %s): signature %s" % (rp["property"], rp["seed"], rp["tier"], rp["signature"]))
    if len(sys.argv) < 2:
        print(__doc__)
        return 2
    pid = sys.argv[1]
    tier = sys.argv[2] if len(sys.argv) > 2 else os.environ.get("VERIF_TIER", "quick")
    if tier not in ("quick", "thorough"):
        tier = "quick"
    try:
        seed = int(os.environ.get("VERIF_SEED", "1"))
    except ValueError:
        seed = 1
    jobs = plan(pid, tier)
    only = os.environ.get("VERIF_ONLY")  # debugging aid: run only the children of one workload
    if jobs and only:
        jobs = [j for j in jobs if j["workload"] == only]
    if not jobs:
        print("unknown property", pid)
        return 2
    t0 = time.time()
    build(sorted({j["bin"] for j in jobs}))
    work = os.path.join(VERIF, ".work", "%s-%s-%d" % (pid, tier, os.getpid()))
    shutil.rmtree(work, ignore_errors=True)
    os.makedirs(work)
    os.makedirs(os.path.join(VERIF, "replays"), exist_ok=True)
    os.makedirs(os.path.join(VERIF, "evidence"), exist_ok=True)

    tasks = []
    for idx, j in enumerate(jobs):
        for part in range(j["parts"]):
            tasks.append((idx, j, part))
    maxpar = int(os.environ.get("VERIF_PAR", "0")) or min(16, max(1, len(tasks)))
    with ThreadPoolExecutor(max_workers=maxpar) as ex:
        results = list(ex.map(lambda t: run_child(work, t[0], t[1], t[2], tier, seed), tasks))

    evaluations = 0
    distinct_more = 0  # classes beyond the capped lists: only the largest child is counted (conservative)
    distinct = set()
    samples = []
    obs = {}
    rules = []
    exhaustive = []
    notes = []
    violations = []  # dicts: signature, detail, case, child
    inconclusive = 0
    broken = []
    total_races = 0
    race_classes = {}
    for r in results:
        res = r["res"]
        nrep, classes = race_reports(r["races"])
        total_races += nrep
        for k, v in classes.items():
            race_classes.setdefault(k, v)
        if res is not None and r["rc"] == 5:
            notes += res.get("notes") or []
            broken.append("child %s: a library call did not return within the in-child watchdog (deadlocks are C08's verdict; this run is not conclusive): %s" % (r["name"], "; ".join((res.get("notes") or ["?"])[:1])[:300]))
            continue
        if res is not None and r["rc"] in (0, 3):
            evaluations += res.get("evaluations", 0)
            distinct.update(res.get("distinct") or [])
            distinct_more = max(distinct_more, res.get("distinct_more", 0))
            for s in (res.get("samples") or []):
                if len(samples) < 8:
                    samples.append(s)
            for k, v in (res.get("observations") or {}).items():
                if k.startswith("max_"):
                    obs[k] = max(obs.get(k, 0), v)
                else:
                    obs[k] = obs.get(k, 0) + v
            if res.get("rule") and res["rule"] not in rules:
                rules.append(res["rule"])
            exhaustive += res.get("exhaustive") or []
            notes += res.get("notes") or []
            inconclusive += res.get("inconclusive", 0)
            for v in res.get("violations") or []:
                v = dict(v)
                v["child"] = r["name"]
                v["cmd"] = r["cmd"]
                violations.append(v)
        else:
            log = open(r["log"], errors="replace").read()
            jt = ""
            if os.path.exists(r["journal"]):
                jt = open(r["journal"], errors="replace").read()[-20000:]
            if r["rc"] in (124, 137) or "SIGQUIT" in log[:200000]:
                # driver watchdog fired: inconclusive, keep the dump
                dump = os.path.join(VERIF, "replays", "%s-timeout-%s.log" % (pid, r["name"]))
                shutil.copy(r["log"], dump)
                broken.append("child %s exceeded its wall-clock watchdog (inconclusive); goroutine dump: %s" % (r["name"], dump))
                continue
            kind, sig, detail = classify_crash(log, jt)
            if kind == "library":
                last = jt.strip().split("\n")[-1] if jt.strip() else ""
                try:
                    lastc = json.loads(last) if last else None
                except Exception:
                    lastc = last[-2000:]
                violations.append(dict(signature=pid + "/" + sig, detail=detail, case=dict(last_journalled_case=lastc, log_tail=log[-6000:]),
                                       child=r["name"], cmd=r["cmd"]))
            else:
                dump = os.path.join(VERIF, "replays", "%s-broken-%s.log" % (pid, r["name"]))
                shutil.copy(r["log"], dump)
                broken.append("child %s died (rc=%s, %s: %s); log: %s" % (r["name"], r["rc"], kind, detail[:200], dump))

    # race reports are violations for the properties whose statement is about races
    if pid in ("C08", "C12"):
        for k, v in race_classes.items():
            if MOD in v or pid == "C12":
                violations.append(dict(signature="%s/race/%s" % (pid, k), detail="data race reported by the Go race detector", case=dict(report=v), child="race-log", cmd=[]))
    obs["race_reports_total"] = total_races
    obs["race_report_classes"] = len(race_classes)

    known = [k for k in load_known() if k.get("property") == pid and k.get("status") == "known"]
    unlisted = []
    listed = {}
    for v in violations:
        hit = None
        for k in known:
            if fnmatch.fnmatchcase(v["signature"], k["signature"]):
                hit = k
                break
        if hit:
            listed.setdefault(hit["id"], (hit, []))[1].append(v)
        else:
            unlisted.append(v)

    for kid, (k, vs) in sorted(listed.items()):
        print("KNOWN-FINDING: property=%s %s (%s; %d occurrence(s) this run, e.g. %s)" % (pid, k["what"], kid, len(vs), vs[0]["detail"][:160]))
    seen_sig = set()
    nviol = 0
    for v in unlisted:
        if v["signature"] in seen_sig:
            continue
        seen_sig.add(v["signature"])
        nviol += 1
        h = hashlib.sha1(v["signature"].encode()).hexdigest()[:10]
        path = os.path.join(VERIF, "replays", "%s-%s.json" % (pid, h))
        json.dump(dict(property=pid, tier=tier, seed=seed, signature=v["signature"], detail=v["detail"], case=v.get("case"),
                       child=v.get("child"), child_cmd=v.get("cmd"),
                       how_to_replay="python3 /verif/check.py replay " + path), open(path, "w"), indent=1, default=str)
        print("VIOLATION property=%s replay=%s" % (pid, path))
        print("  signature: %s" % v["signature"])
        print("  detail: %s" % v["detail"][:500])

    wall = time.time() - t0
    ndistinct = len(distinct) + int(distinct_more)
    cov = dict(evaluations=int(evaluations), distinct_nontrivial=ndistinct, rule=" | ".join(rules) or "n/a",
               samples=samples, observations=obs, children=len(results), inconclusive=int(inconclusive),
               known_findings_seen=sorted(listed.keys()), unlisted_violation_signatures=sorted(seen_sig),
               race_report_classes=sorted(race_classes.keys()))
    if exhaustive:
        cov["exhaustive_subspaces"] = sorted(set(exhaustive))
    if notes:
        cov["notes"] = notes[:40]
    if broken:
        cov["broken"] = broken
    ev = dict(property_id=pid, tier=tier, seed=seed, level="exploration", coverage=cov,
              assumptions=ASSUMPTIONS["*"] + ASSUMPTIONS.get(pid, []), wall_s=round(wall, 2), violations=nviol)
    evdir = os.path.join(VERIF, "evidence")
    if os.environ.get("VERIF_ONLY") or os.environ.get("VERIF_SCRATCH_EVIDENCE"):
        # partial / experimental runs (one job only, runs against a deliberately broken tree) must not replace
        # the evidence of the registered check
        evdir = os.path.join(VERIF, ".work", "evidence-scratch")
        os.makedirs(evdir, exist_ok=True)
    evp = os.path.join(evdir, pid + ".json")
    tmp = evp + ".tmp"
    json.dump(ev, open(tmp, "w"), indent=1, default=str)
    os.replace(tmp, evp)

    if not os.environ.get("VERIF_KEEP"):
        shutil.rmtree(work, ignore_errors=True)

    print("%s %s seed=%d: %d evaluations, %d distinct non-trivial, %d children, %d inconclusive, %d race reports, %.1fs" %
          (pid, tier, seed, evaluations, ndistinct, len(results), inconclusive, total_races, wall))
    if nviol:
        return 1
    if broken:
        for b in broken:
            print("BROKEN/INCONCLUSIVE:", b)
        return 2
    if evaluations == 0 or ndistinct < 2:
        print("BROKEN: no observations (evaluations=%d distinct=%d)" % (evaluations, ndistinct))
        return 2
    print("HELD property=%s on what was observed" % pid)
    return 0


if __name__ == "__main__":
    sys.exit(main())
